#!/usr/bin/env bash
# run_batch.sh <results_dir> <mutant_dir>...   evaluates seeded mutants one after the other (target property only)
out="$1"; shift
mkdir -p "$out"
for d in "$@"; do
  [ -f "$d/meta.json" ] || continue
  id=$(basename "$d")
  case "$id" in C[0-9]*-m[0-9]*) ;; *) id=$(echo "$d" | sed -E 's|.*/(C[0-9]+)/(MUTANTS/)?(m[0-9]+)/?$|\1-\3|');; esac
  timeout 1500 python3 "$(dirname "$0")/seeded.py" "$d" > "$out/$id.json" 2> "$out/$id.err" || true
  python3 - "$out/$id.json" "$id" <<'PY'
import json,sys
try:
    r=json.load(open(sys.argv[1]))
    print(sys.argv[2],'applies',r.get('applies'),'suite',r.get('suite_passes'),'demo',r.get('demo_fails_with_patch'),r.get('demo_passes_without'),
          'DETECTED' if r.get('detected_by') else 'MISSED', (r.get('error') or '')[:100], [v['signatures'][:3] for v in r.get('checks',{}).values()], flush=True)
except Exception as e:
    print(sys.argv[2],'ERR',e, flush=True)
PY
done
