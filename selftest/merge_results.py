#!/usr/bin/env python3
"""merge_results.py <results_dir> : folds the evaluator's result of each seeded change into seeded/<id>/meta.json + result.json"""
import json, os, sys, glob
VERIF = os.path.dirname(os.path.dirname(os.path.abspath(__file__)))
NOTES = json.load(open(os.path.join(VERIF, "selftest", "notes.json"))) if os.path.exists(os.path.join(VERIF, "selftest", "notes.json")) else {}
for rf in sorted(glob.glob(os.path.join(sys.argv[1], "C*-m*.json"))):
    mid = os.path.basename(rf)[:-5]
    d = os.path.join(VERIF, "seeded", mid)
    if not os.path.isdir(d):
        continue
    try:
        r = json.load(open(rf))
    except Exception as e:
        print(mid, "unreadable result", e); continue
    mp = os.path.join(d, "meta.json")
    m = json.load(open(mp))
    m["breaks_property"] = m.get("property")
    m["origin"] = "written by an independent sub-agent that saw only the property text and its own scratch checkout (nothing from /verif)"
    m["verified_by_main_session"] = {
        "how": "selftest/seeded.py in a scratch worktree of /repo HEAD (removed afterwards): git apply patch.diff; go build ./...; tools/baseline_off.py (297-test suite, guard off); demonstration with the patch (must fail) and with the patch reversed (must pass); ./check <property> quick with VERIF_REPO=<worktree>",
        "patch_applies": r.get("applies"), "builds": r.get("builds"), "suite_297_passes": r.get("suite_passes"),
        "demo_fails_with_patch": r.get("demo_fails_with_patch"), "demo_passes_without": r.get("demo_passes_without"),
    }
    m["detected_by"] = r.get("detected_by", [])
    m["signatures"] = {p: v.get("signatures", []) for p, v in r.get("checks", {}).items()}
    if mid in NOTES:
        m["note"] = NOTES[mid]
    r.pop("mutant", None)
    json.dump(m, open(mp, "w"), indent=1, ensure_ascii=False)
    json.dump(r, open(os.path.join(d, "result.json"), "w"), indent=1, ensure_ascii=False)
    print(mid, "kept" if all([r.get("applies"), r.get("suite_passes"), r.get("demo_fails_with_patch"), r.get("demo_passes_without")]) else "NOT CONFIRMED", "detected" if r.get("detected_by") else "MISSED")
