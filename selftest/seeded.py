#!/usr/bin/env python3
"""Evaluate one seeded mutant (patch.diff + demonstration + meta.json) against the checks.

  seeded.py <mutant_dir> [--props C01,C02,…] [--tier quick] [--seed N]

Steps (all in a scratch git worktree of /repo's HEAD under $TMPDIR, removed afterwards):
  1. the patch applies and the tree builds;
  2. the repository's own suite (guard off) still passes 297/297;
  3. the demonstration fails with the patch and passes without it;
  4. every requested check is run with VERIF_REPO=<worktree>; exit code 1 + a VIOLATION line = detected.
Prints one JSON object. Nothing is written into /repo or /verif (evidence and replays go to a scratch dir)."""
import json, os, re, shutil, subprocess, sys, tempfile, argparse

VERIF = os.path.dirname(os.path.dirname(os.path.abspath(__file__)))
ENV = dict(os.environ, GOFLAGS="-mod=mod", GOPROXY="off", GOSUMDB="off", GOTOOLCHAIN="local")

def run(cmd, cwd=None, env=None, timeout=3600):
    p = subprocess.run(cmd, cwd=cwd, env=env or ENV, stdout=subprocess.PIPE, stderr=subprocess.STDOUT, text=True, errors='replace', timeout=timeout)
    return p.returncode, p.stdout

def main():
    ap = argparse.ArgumentParser()
    ap.add_argument("mutant")
    ap.add_argument("--props", default="")
    ap.add_argument("--tier", default="quick")
    ap.add_argument("--seed", default=os.environ.get("VERIF_SEED", "1"))
    ap.add_argument("--skip-suite", action="store_true")
    a = ap.parse_args()
    md = os.path.abspath(a.mutant)
    meta = json.load(open(os.path.join(md, "meta.json")))
    import re as _re
    if not _re.fullmatch(r"C\d\d", str(meta.get("property", ""))):
        # some agents put the property text there: the directory name (Cxx-mN) is authoritative
        mm = _re.match(r"(C\d\d)-m\d+", os.path.basename(md.rstrip("/")))
        if mm:
            meta["property"] = mm.group(1)
    res = {"mutant": md, "property": meta.get("property"), "summary": meta.get("summary")}
    wt = tempfile.mkdtemp(prefix="seedwt.")
    out = tempfile.mkdtemp(prefix="seedout.")
    os.rmdir(wt)
    try:
        rc, o = run(["git", "-C", "/repo", "worktree", "add", "--detach", "-q", wt, "HEAD"])
        if rc != 0:
            res["error"] = "worktree: " + o; return res
        rc, o = run(["git", "-C", wt, "apply", os.path.join(md, "patch.diff")])
        res["applies"] = rc == 0
        if rc != 0:
            res["error"] = "patch does not apply: " + o[-400:]; return res
        rc, o = run(["go", "build", "./..."], cwd=wt)
        res["builds"] = rc == 0
        if rc != 0:
            res["error"] = o[-400:]; return res
        if not a.skip_suite:
            rc, o = run(["python3", os.path.join(VERIF, "tools", "baseline_off.py"), wt])
            res["suite_passes"] = rc == 0
            res["suite"] = o.strip().splitlines()[0] if o.strip() else ""
        # demonstration
        demo_src = None
        for cand in ("demo_test.go.txt", "demo_test.go"):
            if os.path.exists(os.path.join(md, cand)):
                demo_src = os.path.join(md, cand)
        if demo_src and meta.get("demo_dir") is not None and meta.get("demo_file"):
            ddir = os.path.join(wt, meta["demo_dir"].lstrip("/").replace("/tmp/mut/%s/" % meta.get("property", ""), ""))
            dfile = os.path.join(ddir, os.path.basename(meta["demo_file"]))
            shutil.copy(demo_src, dfile)
            race = ["-race"] if "-race" in meta.get("demo_run", "") else []
            cmd = ["go", "test", "-vet=off", "-count=1"] + race + ["-run", "Demo", "."]
            rc1, o1 = run(cmd, cwd=ddir)
            run(["git", "-C", wt, "apply", "-R", os.path.join(md, "patch.diff")])
            rc2, o2 = run(cmd, cwd=ddir)
            run(["git", "-C", wt, "apply", os.path.join(md, "patch.diff")])
            os.remove(dfile)
            res["demo_fails_with_patch"] = rc1 != 0
            res["demo_passes_without"] = rc2 == 0
            if rc2 != 0:
                res["demo_without_output"] = o2[-600:]
        else:
            res["demo"] = "no demo file / meta incomplete"
        # checks
        props = [p for p in a.props.split(",") if p] or [meta.get("property")]
        env = dict(ENV, VERIF_REPO=wt, VERIF_OUT_DIR=out, VERIF_SEED=a.seed)
        res["checks"] = {}
        for p in props:
            rc, o = run([os.path.join(VERIF, "check"), p, a.tier], cwd=VERIF, env=env)
            sigs = re.findall(r"signature: (.*?) \(x\d+\)", o)
            res["checks"][p] = {"exit": rc, "detected": rc == 1 and "VIOLATION property=" in o, "signatures": sigs[:8],
                                "tail": o.strip().splitlines()[-1][:300] if o.strip() else ""}
        res["detected_by"] = [p for p, v in res["checks"].items() if v["detected"]]
        return res
    finally:
        run(["git", "-C", "/repo", "worktree", "remove", "--force", wt])
        shutil.rmtree(wt, ignore_errors=True)
        shutil.rmtree(out, ignore_errors=True)
        alt = os.path.join(VERIF, "mon", "bin", "alt." + wt.replace("/", "_"))
        shutil.rmtree(alt, ignore_errors=True)

if __name__ == "__main__":
    r = main()
    print(json.dumps(r, indent=1, ensure_ascii=False))
