#!/usr/bin/env python3
"""gen_readme.py : rewrites seeded/README.md from seeded/<id>/meta.json (one row per seeded change)."""
import json, os, glob, re
VERIF = os.path.dirname(os.path.dirname(os.path.abspath(__file__)))
rows = []
retired = []
for mp in sorted(glob.glob(os.path.join(VERIF, "seeded", "C*-m*", "meta.json")), key=lambda p: (p.split("/")[-2][:3], int(re.search(r"-m(\d+)", p).group(1)))):
    mid = mp.split("/")[-2]
    m = json.load(open(mp))
    if m.get("retired"):
        retired.append((mid, m["retired"]))
        continue
    summ = re.sub(r"\s+", " ", m.get("summary", "")).replace("|", "\\|")
    if len(summ) > 260:
        summ = summ[:260] + "…"
    sigs = []
    for p, l in (m.get("signatures") or {}).items():
        sigs += l
    rows.append((mid, summ, ", ".join(m.get("detected_by") or []) or "**MISSED**", ", ".join(sigs[:2]).replace("|", "\\|"), m.get("first_evaluation", "?")))
n = len(rows)
caught = sum(1 for r in rows if r[2] != "**MISSED**")
with open(os.path.join(VERIF, "seeded", "README.md"), "w") as w:
    w.write(f"""# Seeded changes

{n} changes to go-sms-protocol written by independent sub-agents (rounds 1 and 2: two per property and round; round 3: two
each for 14 properties; rounds 4 and 5: two each for 10 properties per round; round 6: two each for all 20, the agents now also given the quantifier text — rounds 3 to 6 asked for bugs that need call sequences, reused
objects, cooperating sites, the process environment or rare value combinations); each agent saw only the text of its property
and a scratch checkout, nothing from /verif.  Every change compiles, passes the 297-test suite with the guard off, and comes
with a demonstration test that fails with the change and passes without it — all of which was re-checked here by
`selftest/seeded.py` in a scratch worktree (see `meta.json` → `verified_by_main_session`, and `result.json`).  None of them
is, or ever was, applied to /repo.  {caught} of {n} are reported by the check of their own property at the current commit (quick tier; the whole collection was re-evaluated at seeds 1, 2 and 3).

To run a check against one: `git -C /repo apply /verif/seeded/<id>/patch.diff && ./check <Cxx> quick; git -C /repo checkout -- .`
(or, without touching /repo, `python3 selftest/seeded.py seeded/<id>`).

Column "first evaluation": *as built* = caught by the check as it stood when the change arrived; *strengthened* = missed
first, the check was extended (what and why is in `meta.json` → `note`), then caught; *see note* = caught by a stage that
had been added shortly before for a related reason.  Patches that touch code repaired later by a `fix:` commit (`gsm7.go`: a8dc0b4/cc4fac3/5ed8035;
`smgp30/pdu_submit.go`: 0deddb7) were rebased by hand and re-confirmed; the earlier forms are kept beside them
(`patch.orig-*.diff`, `patch.rebased-*.diff`).

| id | change | caught by | signatures (first two) | first evaluation |
|---|---|---|---|---|
""")
    for r in rows:
        w.write(f"| {r[0]} | {r[1]} | {r[2]} | `{r[3]}` | {r[4]} |\n")
    if retired:
        w.write("\nRetired (kept for the record, not counted):\n\n")
        for mid, why in retired:
            w.write(f"* {mid}: {why}\n")
print(n, "rows,", caught, "caught")
