// Package fuzz drives Go's native coverage-guided fuzzing engine over every decoder and parser entry point of
// go-sms-protocol, with the C03 resource monitors (panic, logical step budget, allocation delta) and the
// truncated-mandatory clause as the failure oracle. It is run by `./check C03 thorough` with an iteration bound
// (-fuzztime=Nx); what the engine keeps is re-judged by the deterministic stage "fuzzfound".
package fuzz

import (
	"testing"

	"verifmon/props"
)

func FuzzDecoders(f *testing.F) {
	sels, data := props.C03FuzzSeeds()
	for i := range sels {
		f.Add(uint16(sels[i]), data[i])
	}
	n := props.C03TargetCount()
	f.Fuzz(func(t *testing.T, sel uint16, in []byte) {
		if sig, detail := props.C03Judge(int(sel)%n, in); sig != "" {
			t.Fatalf("C03 %s\n%s", sig, detail)
		}
	})
}
