package props

import (
	"context"
	"fmt"
	"sort"
	"strings"
	"sync"

	protocol "github.com/hujm2023/go-sms-protocol"
	"github.com/hujm2023/go-sms-protocol/cmpp"
	"github.com/hujm2023/go-sms-protocol/cmpp/cmpp20"
	"github.com/hujm2023/go-sms-protocol/datacoding"
	"github.com/hujm2023/go-sms-protocol/sgip"
	"github.com/hujm2023/go-sms-protocol/smgp"
	"github.com/hujm2023/go-sms-protocol/smgp/smgp30"
	"github.com/hujm2023/go-sms-protocol/smpp"
	"github.com/hujm2023/go-sms-protocol/smpp/smpp34"

	"verifmon/fw"
	"verifmon/pdus"
)

// C13 — concurrent use on distinct values is race-free and equals sequential use.

func digestBytes(b []byte) string { return fmt.Sprintf("%d:%016x", len(b), fw.HashBytes(b)) }

func digestParts(p [][]byte, err error) string {
	var sb strings.Builder
	fmt.Fprintf(&sb, "err=%v;", err != nil)
	for _, x := range p {
		sb.WriteString(digestBytes(x))
		sb.WriteByte(',')
	}
	return sb.String()
}

// digestLines: String() output compared as a multiset of lines (map iteration order is unspecified).
func digestLines(s string) string {
	l := strings.Split(s, "\n")
	sort.Strings(l)
	return digestBytes([]byte(strings.Join(l, "\n")))
}

// opState is what one goroutine keeps between its calls: results it still holds. A result is the caller's; it must
// read the same at the end of the list as when it was returned, whatever the other goroutines called meanwhile.
type opState struct {
	held []heldResult
	n    int
}

type heldResult struct {
	kind  string
	parts [][]byte
	dig   string
}

func (s *opState) keep(kind string, parts [][]byte) {
	if s == nil || len(parts) == 0 {
		return
	}
	h := heldResult{kind: kind, parts: parts, dig: digestParts(parts, nil)}
	if len(s.held) < 32 {
		s.held = append(s.held, h)
	} else {
		s.held[s.n%32] = h
	}
	s.n++
}

// audit returns a description of the first held result that no longer reads as it did when it was returned.
func (s *opState) audit() (kind, msg string) {
	if s == nil {
		return "", ""
	}
	for _, h := range s.held {
		if now := digestParts(h.parts, nil); now != h.dig {
			first := ""
			if len(h.parts) > 0 && len(h.parts[0]) > 0 {
				first = hx(h.parts[0][:min(len(h.parts[0]), 12)])
			}
			return h.kind, fmt.Sprintf("a result of %s read %s when it was returned and reads %s now (first part begins %s)", h.kind, h.dig, now, first)
		}
	}
	return "", ""
}

// texts several goroutines send at the same time (bulk traffic: the same wording to many recipients)
var sharedTexts = []string{
	strings.Repeat("Your parcel is out for delivery today. ", 6),
	strings.Repeat("0123456789", 17),
	strings.Repeat("abc[def]", 30),
	strings.Repeat("您的验证码是1234，请勿泄露。", 8),
	"short notice",
	strings.Repeat("Ünïcödé täxt ", 20),
}

// oneOp executes op number i of a goroutine's list and returns (kind, digest of the result).
func oneOp(ts *pdus.Tables, r *fw.Rng, st *opState) (kind, digest string) {
	ctx := context.Background()
	t := ts.Types[r.Intn(len(ts.Types))]
	lt := t.Lib()
	switch r.Intn(21) {
	case 18:
		// an image that ends early: the error is a return value like any other
		v, _ := pdus.Gen(t, r, -1, 0)
		img := pdus.RefEncode(t, v)
		if len(img) > 13 {
			img = img[:12+r.Intn(len(img)-12)]
		}
		err := t.New().IDecode(img)
		return "decode-truncated", fmt.Sprintf("%d|%v", len(img), err)
	case 19, 20:
		// the same text from several goroutines, each with its own reference byte
		text := sharedTexts[r.Intn(len(sharedTexts))]
		key := byte(r.U32())
		var parts [][]byte
		var err error
		var what string
		switch r.Intn(3) {
		case 0:
			var f datacoding.SMPPDataCoding
			parts, f, err = protocol.EncodeSMPPContentAndSplit(ctx, text, datacoding.SMPPDataCoding(r.Pick(0, 1, 3, 8, 99)), key)
			what = fmt.Sprintf("smpp/%d", f)
		case 1:
			var f datacoding.CMPPDataCoding
			parts, f, err = protocol.EncodeCMPPContentAndSplit(ctx, text, datacoding.CMPPDataCoding(r.Pick(0, 8, 15)), key)
			what = fmt.Sprintf("cmpp/%d", f)
		default:
			var f datacoding.ProtocolDataCoding
			parts, f, err = protocol.NewBatchDataCodingEncoder().Protocol(protocol.SMPP).Content(text, key).
				DataCodings([]datacoding.ProtocolDataCoding{datacoding.SMPP_CODING_GSM7_PACKED, datacoding.SMPP_CODING_Latin1, datacoding.SMPP_CODING_UCS2}).Build(ctx)
			if f != nil {
				what = fmt.Sprintf("batch/%d", f.ToInt())
			}
		}
		if err == nil {
			st.keep("split-shared-text", parts)
		}
		return "split-shared-text", what + "|" + digestParts(parts, err)
	case 17:
		// a body whose declared length exceeds its content: the encoder pads it (cmpp30 / smgp30 / sgip12 bodies)
		keys := []string{"cmpp30.Submit/CMPP_SUBMIT", "cmpp30.Deliver/CMPP_DELIVER", "smgp30.Submit/Submit", "smgp30.Deliver/Deliver", "sgip12.Submit/SGIP_SUBMIT", "sgip12.Deliver/SGIP_DELIVER"}
		pt := ts.ByKey[keys[r.Intn(len(keys))]]
		v, _ := pdus.Gen(pt, r, -1, 0)
		for _, f := range pt.Fields {
			if f.Kind == "body" {
				content := r.Bytes(r.Range(0, 40))
				declared := len(content) + r.Pick(1, 31, 32, 33, 40, 64, 65, 100, 150, 200)
				if lf := pt.Field(f.Len); lf.Kind == "u8" && declared > 255 {
					declared = 255
				}
				v.F[f.Spec], v.F[f.Len] = content, uint64(declared)
			}
		}
		b, err := pdus.Build(pt, v).IEncode()
		if err == nil {
			if m := pdus.MandatoryLen(pt, b); m >= 0 {
				if tail, terr := tlvTail(b[m:]); terr == nil { // optional parameters are emitted in map order
					return "encode-padded-body", fmt.Sprintf("%d|%s|%016x", len(b), digestBytes(b[:m]), fw.HashStr(tail))
				}
			}
		}
		return "encode-padded-body", fmt.Sprintf("%v|%s", err != nil, digestBytes(b))
	case 15, 16:
		// the library's lookup tables and name/priority switches (read-only after init)
		code := uint8(r.U32())
		if r.Bool() {
			code = uint8(r.Intn(12))
		}
		var sb strings.Builder
		sb.WriteString(cmpp.ConnectRespResultString(code))
		sb.WriteString(cmpp20.SubmitRespResultString(code))
		sb.WriteString(sgip.RespStatus(code).String())
		sb.WriteString(smgp.Status(uint32(code)).String())
		sb.WriteString(smpp.CMDStatus(uint32(code)).Error())
		sb.WriteString(smpp.CMDId(uint32(code)).String())
		sb.WriteString(cmpp.CommandID(uint32(code)).String())
		sb.WriteString(smgp.CommandID(uint32(code)).String())
		sb.WriteString(sgip.CommandID(uint32(code)).String())
		for _, n := range []int{0, 1, 3, 8, 9, 15, 99, int(code)} {
			sb.WriteString(fmt.Sprint(datacoding.SMPPDataCoding(n).Priority(), datacoding.CMPPDataCoding(n).Priority(),
				datacoding.IsValidSMPPDataCoding(datacoding.SMPPDataCoding(n)), datacoding.IsValidCMPPDataCoding(datacoding.CMPPDataCoding(n)),
				datacoding.SMPPDataCoding(n).String(), datacoding.CMPPDataCoding(n).String()))
		}
		return "lookup-tables", sb.String()
	case 14:
		// an encode that must FAIL (a value too long for its fixed-width slot): the error path releases pooled
		// buffers too, and must do so exactly once
		cands := oversizeCandidates(ts)
		oc := cands[r.Intn(len(cands))]
		v, _ := pdus.Gen(oc.t, r, -1, 0)
		f := oc.t.Fields[oc.field]
		big := make([]byte, f.W+1+r.Intn(8))
		for i := range big {
			big[i] = byte('A' + r.Intn(26))
		}
		if f.Repr != "" {
			big = r.Bytes(f.W + 1 + r.Intn(4))
		}
		if oc.elem {
			v.F[f.Spec] = [][]byte{big}
			v.F[f.Count] = uint64(1)
		} else {
			v.F[f.Spec] = big
		}
		b, err := pdus.Build(oc.t, v).IEncode()
		return "encode-refused", fmt.Sprintf("%v|%d", err != nil, len(b))
	case 0, 1:
		v, _ := pdus.Gen(lt, r, -1, 0)
		b, err := pdus.Build(lt, v).IEncode()
		// optional parameters are emitted in map order: compare the image with its optional tail as a set
		if err == nil {
			st.keep("encode", [][]byte{b})
			if m := pdus.MandatoryLen(t, b); m >= 0 {
				if tail, terr := tlvTail(b[m:]); terr == nil {
					return "encode", fmt.Sprintf("%d|%s|%016x", len(b), digestBytes(b[:m]), fw.HashStr(tail))
				}
			}
		}
		return "encode", fmt.Sprintf("%v|%s", err != nil, digestBytes(b))
	case 2, 3:
		v, _ := pdus.Gen(t, r, -1, 0)
		img := pdus.RefEncode(t, v)
		p := t.New()
		err := p.IDecode(img)
		if err != nil {
			return "decode", "err"
		}
		return "decode", pdus.Describe(lt, pdus.Extract(lt, p))
	case 4:
		v, _ := pdus.Gen(t, r, -1, 0)
		p, err := pdus.Dispatchers[t.Family](pdus.RefEncode(t, v))
		if err != nil || p == nil {
			return "dispatch", "err"
		}
		return "dispatch+String", digestLines(p.String())
	case 5:
		v, _ := pdus.Gen(lt, r, -1, 0)
		return "String", digestLines(pdus.Build(lt, v).String())
	case 6:
		text, _ := randomText(r, 400)
		parts, f, err := protocol.EncodeCMPPContentAndSplit(ctx, text, datacoding.CMPPDataCoding(r.Pick(0, 8, 9, 15, 3)), byte(r.U32()))
		if err == nil {
			st.keep("split-cmpp", parts)
		}
		return "split-cmpp", fmt.Sprintf("%d|%s", f, digestParts(parts, err))
	case 7:
		text, _ := randomText(r, 400)
		parts, f, err := protocol.EncodeSMPPContentAndSplit(ctx, text, datacoding.SMPPDataCoding(r.Pick(0, 1, 3, 8, 99, 4)), byte(r.U32()))
		if err == nil {
			st.keep("split-smpp", parts)
		}
		return "split-smpp", fmt.Sprintf("%d|%s", f, digestParts(parts, err))
	case 8:
		text, _ := randomText(r, 300)
		if text == "" {
			text = "y"
		}
		var list []datacoding.ProtocolDataCoding
		proto := protocol.SMPP
		if r.Bool() {
			for _, n := range []int{0, 1, 3, 8, 99} {
				if r.Bool() {
					list = append(list, datacoding.SMPPDataCoding(n))
				}
			}
			if len(list) == 0 {
				list = append(list, datacoding.SMPP_CODING_UCS2)
			}
		} else {
			proto = protocol.CMPP
			for _, n := range []int{0, 8, 9, 15} {
				if r.Bool() {
					list = append(list, datacoding.CMPPDataCoding(n))
				}
			}
			if len(list) == 0 {
				list = append(list, datacoding.CMPP_CODING_GBK)
			}
		}
		parts, f, err := protocol.NewBatchDataCodingEncoder().Protocol(proto).Content(text, byte(r.U32())).DataCodings(list).Build(ctx)
		fs := "nil"
		if f != nil {
			fs = fmt.Sprintf("%T:%d", f, f.ToInt())
		}
		if err == nil {
			st.keep("batch", parts)
		}
		return "batch", fs + "|" + digestParts(parts, err)
	case 9:
		text, _ := randomText(r, 200)
		cd := codecDefs[r.Intn(len(codecDefs))]
		enc, err := cd.mk(text).Encode()
		d := fmt.Sprintf("%v|%s", err != nil, digestBytes(enc))
		if err == nil {
			dec, derr := cd.mk(string(enc)).Decode()
			d += fmt.Sprintf("|%v|%s", derr != nil, digestBytes(dec))
		}
		return "codec-" + cd.name, d
	case 10:
		text, _ := randomText(r, 200)
		return "ucs2-pooled", digestBytes([]byte(cmpp.Utf8ToUcs2Pooled(text)))
	case 11:
		l := pdus.GenTLVs(r, r.Pick(2, 3, 4, 6))
		m := smpp.TLVs{}
		for _, tl := range l {
			m.SetTLV(smpp.NewTLV(tl.Tag, tl.Val))
		}
		b := m.Bytes()
		v := &pdus.Values{F: map[string]any{}}
		if _, err := pdus.RefDecodeBody([]pdus.Field{{Spec: "t", Kind: "tlv"}}, b, v); err != nil {
			return "tlv-bytes", "unparseable"
		}
		return "tlv-bytes", pdus.CanonTLV(v.F["t"].([]pdus.TLV)) + "|" + digestLines(m.String())
	case 12:
		id := r.U64()
		if r.Bool() {
			// ids that recur, in this goroutine and in the others (status reports for the same few messages)
			id = []uint64{0x1234567890abcdef, 0x0a8b5c6d7e8f9001, 0xfedcba9876543210, 0x0102030405060708}[r.Intn(4)] + uint64(r.Intn(3))
		}
		s := cmpp.MsgID2String(id)
		var sb strings.Builder
		for k := 0; k < 3; k++ { // the same string converted repeatedly
			fmt.Fprintf(&sb, "|%d", cmpp.MsgIDString2Uint64(s))
		}
		return "msgid", s + sb.String()
	default:
		rc := fmt.Sprintf("id:%010d sub:001 dlvrd:001 submit date:2410011200 done date:2410011201 stat:DELIVRD err:%03d text:%s", r.U64()%10000000000, r.Intn(1000), "hello")
		a, _ := smpp34.ExtractDeliveryReceipt(rc)
		b, _ := smgp30.ExtractDeliveryReceipt(rc)
		return "receipts", fmt.Sprintf("%+v|%+v", a, b)
	}
}

var (
	oversizeCands     []oversizeCase
	oversizeCandsOnce sync.Once
)

func oversizeCandidates(ts *pdus.Tables) []oversizeCase {
	oversizeCandsOnce.Do(func() {
		for _, oc := range c01OversizeCases(ts) {
			if oc.extra == 1 {
				oversizeCands = append(oversizeCands, oc)
			}
		}
	})
	return oversizeCands
}

func c13Case(c *fw.Case, perturb bool) {
	ts := pdus.Load()
	gs := []int{2, 4, 8, 16, 32, 64}
	G := gs[int(c.Idx)%len(gs)]
	nops := 120
	if c.Tier == fw.Thorough {
		nops = 400
	}
	if G >= 32 {
		nops /= 2
	}
	seeds := make([]uint64, G)
	for g := range seeds {
		seeds[g] = c.R.U64()
	}
	if perturb && c.W.Hooks != nil {
		c.W.Hooks.YieldMode = 1
		defer func() { c.W.Hooks.YieldMode = 0 }()
	}
	got := make([][]string, G)
	panics := make([]string, G)
	changed := make([][2]string, G)
	var wg sync.WaitGroup
	start := make(chan struct{})
	for g := 0; g < G; g++ {
		wg.Add(1)
		go func(g int) {
			defer wg.Done()
			r := fw.NewRng(seeds[g])
			got[g] = make([]string, nops)
			<-start
			if p, val, st := fw.Try(func() {
				state := &opState{}
				for i := 0; i < nops; i++ {
					_, got[g][i] = oneOp(ts, r, state)
					if changed[g][1] == "" && (i%16 == 15 || i == nops-1) {
						changed[g][0], changed[g][1] = state.audit()
					}
				}
			}); p {
				panics[g] = fmt.Sprintf("%v\n%s", val, st)
			}
		}(g)
	}
	close(start)
	wg.Wait()
	// sequential oracle, AFTER the concurrent phase (lazily initialised shared state must meet concurrency cold):
	// the same op lists executed alone, one after the other
	if c.W.Hooks != nil {
		c.W.Hooks.YieldMode = 0
	}
	want := make([][]string, G)
	kinds := map[string]bool{}
	var opsOracleFailed string
	if p, val, st := fw.Try(func() {
		for g := 0; g < G; g++ {
			r := fw.NewRng(seeds[g])
			want[g] = make([]string, nops)
			state := &opState{}
			for i := 0; i < nops; i++ {
				k, d := oneOp(ts, r, state)
				kinds[k] = true
				want[g][i] = d
			}
			if k, msg := state.audit(); msg != "" {
				c.Failf("result-changed-after-return/"+k, "goroutine list %d run alone: %s", g, msg)
			}
		}
	}); p {
		opsOracleFailed = fmt.Sprintf("%v\n%s", val, st)
	}
	if opsOracleFailed != "" {
		c.Failf("sequential-"+"panic", "the op list panics even when run alone: %s", opsOracleFailed)
		return
	}
	c.Evals(uint64(2 * G * nops))
	for g := 0; g < G; g++ {
		if changed[g][1] != "" {
			c.Failf("result-changed-after-return/"+changed[g][0], "goroutine %d of %d: %s, while the other goroutines made their own calls", g, G, changed[g][1])
		}
		if panics[g] != "" {
			c.Failf("concurrent-panic", "goroutine %d of %d panicked under concurrency (the same list runs cleanly alone): %s", g, G, panics[g])
			continue
		}
		for i := 0; i < nops; i++ {
			if got[g][i] != want[g][i] {
				// recover the op kind for the signature
				r := fw.NewRng(seeds[g])
				kind := ""
				for j := 0; j <= i; j++ {
					kind, _ = oneOp(ts, r, nil)
				}
				c.Failf("differs-from-sequential/"+kind, "goroutine %d/%d op %d (%s): concurrent result %s, alone %s", g, G, i, kind, trunc200(got[g][i]), trunc200(want[g][i]))
				break
			}
		}
	}
	if c.W.Hooks != nil {
		if errs := c.W.Hooks.TakeOwnErrs(); len(errs) > 0 {
			c.Failf("pool-ownership", "%v", errs)
		}
		fp, ny := c.W.Hooks.Fingerprint()
		if perturb && ny > 0 {
			c.Cover(fmt.Sprintf("%s/interleaving/%016x", c.Stage.Name, fp))
			c.Count("yield_events", uint64(ny))
		}
	}
	for k := range kinds {
		c.Cover(fmt.Sprintf("%s/G%d/%s", c.Stage.Name, G, k))
	}
	c.Sample(2, map[string]any{"goroutines": G, "ops_per_goroutine": nops, "op_kinds": len(kinds), "perturbed": perturb, "all_results_equal_sequential": true})
}

// c13Storm: one shared facility under the heaviest contention the machine gives — 64 goroutines (more than Ps) in
// a tight loop on ONE kind of call with small values of their own (String() of header-only PDUs, their IEncode,
// pooled UCS-2, message-id strings). Lock-free free lists and hand-written pools need exactly this to go wrong.
// Every result is compared with the one the same value gives when nothing else runs (computed first).
func c13Storm(c *fw.Case) {
	ts := pdus.Load()
	var small []*pdus.Type
	for _, t := range ts.Types {
		lf := t.Lib().Fields
		if len(lf) <= 2 && (len(lf) == 0 || lf[len(lf)-1].Kind != "tlv") { // optional parameters are emitted in map order
			small = append(small, t)
		}
	}
	kind := []string{"String", "IEncode", "Utf8ToUcs2Pooled", "MsgID2String", "String", "GSM7Unpacked.Encode", "Latin1+UCS2.Encode"}[c.Idx%7]
	G := []int{64, 48, 96, 64}[c.Idx/7%4]
	iters := 600
	if c.Tier == fw.Thorough {
		iters = 4000
	}
	type job struct {
		call func() string
		want string
	}
	jobs := make([][]job, G)
	for g := range jobs {
		for k := 0; k < 4; k++ {
			var call func() string
			switch kind {
			case "String", "IEncode":
				t := small[c.R.Intn(len(small))]
				v, _ := pdus.Gen(t.Lib(), c.R, -1, 0)
				pd := pdus.Build(t.Lib(), v)
				if kind == "String" {
					call = func() string { return digestLines(pd.String()) }
				} else {
					call = func() string { b, err := pd.IEncode(); return fmt.Sprintf("%x %v", b, err) }
				}
			case "GSM7Unpacked.Encode", "Latin1+UCS2.Encode":
				// texts at the sizes scratch buffers are made of (a power of two, one less, one more) and ordinary ones
				n := c.R.Pick(255, 256, 256, 257, 127, 128, 129, 511, 512, 513, 64, c.R.Range(1, 300))
				letters := make([]byte, n)
				for i := range letters {
					letters[i] = byte('a' + c.R.Intn(26))
				}
				text := string(letters)
				if kind == "GSM7Unpacked.Encode" {
					call = func() string { b, err := datacoding.GSM7Unpacked(text).Encode(); return fmt.Sprintf("%x %v", b, err) }
				} else {
					call = func() string {
						a, e1 := datacoding.Latin1(text).Encode()
						b, e2 := datacoding.UCS2(text).Encode()
						return fmt.Sprintf("%x %v %x %v", a, e1, b, e2)
					}
				}
			case "Utf8ToUcs2Pooled":
				text, _ := randomText(c.R, 40)
				call = func() string { return cmpp.Utf8ToUcs2Pooled(text) }
			default:
				id := c.R.U64() | 1
				call = func() string { s := cmpp.MsgID2String(id); return fmt.Sprintf("%s %d", s, cmpp.MsgIDString2Uint64(s)) }
			}
			jobs[g] = append(jobs[g], job{call, call()})
		}
	}
	bad := make([]string, G)
	var wg sync.WaitGroup
	start := make(chan struct{})
	for g := 0; g < G; g++ {
		wg.Add(1)
		go func(g int) {
			defer wg.Done()
			<-start
			if p, val, st := fw.Try(func() {
				for i := 0; i < iters; i++ {
					j := jobs[g][i%len(jobs[g])]
					if got := j.call(); got != j.want {
						bad[g] = fmt.Sprintf("call %d: %s, alone %s", i, trunc200(got), trunc200(j.want))
						return
					}
				}
			}); p {
				bad[g] = fmt.Sprintf("panic: %v\n%s", val, st)
			}
		}(g)
	}
	close(start)
	wg.Wait()
	c.Evals(uint64(G * iters))
	for g := range bad {
		if bad[g] != "" {
			sig := "differs-from-sequential/storm-" + kind
			if strings.HasPrefix(bad[g], "panic") {
				sig = "concurrent-panic/storm-" + kind
			}
			c.Failf(sig, "goroutine %d of %d in a tight loop of %s on its own values: %s", g, G, kind, bad[g])
			break
		}
	}
	if c.W.Hooks != nil {
		if errs := c.W.Hooks.TakeOwnErrs(); len(errs) > 0 {
			c.Failf("pool-ownership", "%v", errs)
		}
	}
	c.Cover(fmt.Sprintf("%s/G%d/%s", c.Stage.Name, G, kind))
}

func init() {
	gmp := func(shard int) int { return []int{1, 2, 4, 8, 16}[shard%5] }
	fw.Register(&fw.Prop{
		ID:        "C13",
		Technique: "Go race detector over a multi-goroutine mixed workload (configuration A: no hook handler installed, so monitors add no synchronisation) + sequential-equivalence oracle + pool-ownership monitor and Yield-hook schedule perturbation (configuration B)",
		Rule: "each case: G in {2,4,8,16,32,64} goroutines, each running its own PRNG op list (encode, decode, dispatcher+String, String, both splitters, Build, six text codecs, pooled UCS-2, TLV container, message id, receipts, images that end early (the error is compared too), and a pool of six texts that several goroutines split at the same time each with its own reference byte) on its own values; results compared with the same lists executed alone, and the last 32 results each goroutine holds re-read every 16 calls and at the end of its list; worker processes with GOMAXPROCS in {1,2,4,8,16}; storm stages: 48..96 goroutines in a tight loop on one kind of call (String / IEncode of header-only PDUs, pooled UCS-2, message-id strings, text codecs on texts of 2^k and 2^k±1 octets), every result compared with the value computed alone; " +
			"distinct_nontrivial = distinct (stage, G, op kind) combinations executed + distinct interleaving fingerprints (hash of the (goroutine, site) order at Yield points) in configuration B; race reports are deduplicated by the pair of innermost library frames",
		Assumptions: []string{
			"a clean run is 'no race observed in these executions', not race freedom; the race detector only sees accesses the workload performs",
			"race verdicts come from configuration A (handler not installed: a hook costs one atomic load and adds no happens-before edge); configuration B adds ownership checks and yields",
			"String() of PDUs with several optional parameters is compared as a multiset of lines (map iteration order is unspecified)",
		},
		Conclude: func(total *fw.Result) []string {
			fps := 0
			for k := range total.Cover {
				if strings.Contains(k, "/interleaving/") {
					fps++
				}
			}
			if fps < 2 {
				return []string{fmt.Sprintf("only %d distinct interleaving fingerprints observed at the Yield points", fps)}
			}
			if total.Counters["hook_events/acquire"] == 0 {
				return []string{"the Acquire hook produced no event: the pool-ownership monitor observed nothing"}
			}
			return nil
		},
		Stages: []*fw.Stage{
			{Name: "plain", N: q(240, 3000), Run: func(c *fw.Case) { c13Case(c, true) }},
			{Name: "raceA", Race: true, NoHandler: true, N: q(120, 1500), GoMaxProcs: gmp, Run: func(c *fw.Case) { c13Case(c, false) }},
			{Name: "raceB", Race: true, N: q(120, 1500), GoMaxProcs: gmp, Run: func(c *fw.Case) { c13Case(c, true) }},
			{Name: "storm", N: q(160, 800), Run: c13Storm},
			{Name: "storm-race", Race: true, N: q(32, 200), Run: c13Storm},
		},
	})
}
