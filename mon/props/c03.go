package props

import (
	"context"
	"encoding/binary"
	"errors"
	"fmt"
	"io"
	"os"
	"path/filepath"
	"runtime"
	"runtime/debug"
	"runtime/metrics"
	"sort"
	"strconv"
	"strings"
	"sync"

	"golang.org/x/text/transform"

	protocol "github.com/hujm2023/go-sms-protocol"
	"github.com/hujm2023/go-sms-protocol/cmpp"
	"github.com/hujm2023/go-sms-protocol/codec"
	"github.com/hujm2023/go-sms-protocol/datacoding"
	"github.com/hujm2023/go-sms-protocol/datacoding/gsm7encoding"
	"github.com/hujm2023/go-sms-protocol/packet"
	"github.com/hujm2023/go-sms-protocol/sgip"
	"github.com/hujm2023/go-sms-protocol/smgp"
	"github.com/hujm2023/go-sms-protocol/smgp/smgp30"
	"github.com/hujm2023/go-sms-protocol/smpp"
	"github.com/hujm2023/go-sms-protocol/smpp/smpp34"

	"verifmon/fw"
	"verifmon/pdus"
	"verifmon/ref"
)

// C03 — decoding untrusted bytes never panics, hangs or over-allocates; truncated
// mandatory parts are reported as errors.

type target struct {
	name        string
	call        func(b []byte) error
	allocExempt bool
	// allocPerOctet overrides the 64 octets per input octet of the allocation bound (0 = default). The String()
	// entry points of golang.org/x/text retry with a doubled destination after every ErrShortDst and the GSM-7
	// transformers decode the whole message anew on each retry: ~log2(n) passes, each linear in the input.
	allocPerOctet uint64
	allocConst    uint64 // 0 = 24 KiB
	typ           *pdus.Type // typed IDecode: enables the truncated-mandatory clause
}

// constOctets: what a call may allocate whatever the input (reader, PDU value, strings of fixed-width fields, the
// 255-entry destination slice a one-octet count can ask for, x/text's two 4 KiB buffers).
func (t *target) constOctets() uint64 {
	if t.allocConst != 0 {
		return t.allocConst
	}
	return 24 << 10
}

func (t *target) perOctet() uint64 {
	if t.allocPerOctet != 0 {
		return t.allocPerOctet
	}
	return 64
}

// sliceConn is a codec.ConnReader over a byte slice (documented contract: Peek returns what is
// there plus an error when short).
type sliceConn struct{ b []byte }

func (s *sliceConn) Read(p []byte) (int, error) {
	if len(s.b) == 0 {
		return 0, io.EOF
	}
	n := copy(p, s.b)
	s.b = s.b[n:]
	return n, nil
}
func (s *sliceConn) Peek(n int) ([]byte, error) {
	if n < 0 {
		return nil, errors.New("negative count")
	}
	if n > len(s.b) {
		return s.b, io.EOF
	}
	return s.b[:n], nil
}
func (s *sliceConn) Discard(n int) (int, error) {
	if n < 0 {
		return 0, errors.New("negative count")
	}
	if n > len(s.b) {
		n = len(s.b)
		s.b = nil
		return n, io.EOF
	}
	s.b = s.b[n:]
	return n, nil
}
func (s *sliceConn) Size() int { return len(s.b) }

var allocSample = []metrics.Sample{{Name: "/gc/heap/allocs:bytes"}}

func allocBytes() uint64 {
	metrics.Read(allocSample)
	return allocSample[0].Value.Uint64()
}

func typedTargets(ts *pdus.Tables) []target {
	var out []target
	seen := map[string]bool{}
	for _, t := range ts.Types {
		t := t
		k := t.Family + "." + t.Go
		if seen[k] {
			continue
		}
		seen[k] = true
		// a PDU decoder allocates its value, a reader and the strings of its fields: 2 KiB beside 64 octets per input
		// octet is generous, and small enough to show a one-octet count that is honoured before the input is looked at
		out = append(out, target{name: k + ".IDecode", typ: t, allocConst: 2 << 10, call: func(b []byte) error { return t.New().IDecode(b) }})
	}
	return out
}

func dispatcherTargets() []target {
	var out []target
	for _, fam := range pdus.Families {
		d := pdus.Dispatchers[fam]
		fam := fam
		out = append(out, target{name: "Decode/" + fam, allocConst: 2 << 10, call: func(b []byte) error {
			p, err := d(b)
			if p == nil && err == nil {
				return errors.New("verifmon: dispatcher returned (nil, nil)")
			}
			return err
		}})
	}
	return out
}

func auxTargets() []target {
	ctx := context.Background()
	tb := func(tr transform.Transformer) func([]byte) error {
		return func(b []byte) error { _, _, err := transform.Bytes(tr, b); return err }
	}
	// the other golang.org/x/text entry points of the same transformers: String() (128-octet chunks, grows on
	// ErrShortSrc) and transform.Reader (what has been read so far, 4096-octet buffer)
	tstr := func(tr transform.Transformer) func([]byte) error {
		return func(b []byte) error { _, _, err := transform.String(tr, string(b)); return err }
	}
	trd := func(mk func() transform.Transformer) func([]byte) error {
		return func(b []byte) error {
			_, err := io.ReadAll(transform.NewReader(&dripReader{b: b, n: 1 + len(b)%7}, mk()))
			return err
		}
	}
	twr := func(mk func() transform.Transformer) func([]byte) error {
		return func(b []byte) error {
			w := transform.NewWriter(io.Discard, mk())
			_, err := w.Write(b)
			if cerr := w.Close(); err == nil {
				err = cerr
			}
			return err
		}
	}
	out := []target{
		{name: "cmpp.PeekHeader", call: func(b []byte) error { _, err := cmpp.PeekHeader(b); return err }},
		{name: "smgp.PeekHeader", call: func(b []byte) error { _, err := smgp.PeekHeader(b); return err }},
		{name: "smpp.PeekHeader", call: func(b []byte) error { _, err := smpp.PeekHeader(b); return err }},
		{name: "sgip.PeekHeader", call: func(b []byte) error { _, err := sgip.PeekHeader(b); return err }},
		{name: "cmpp.NewHeaderFromBytes", call: func(b []byte) error { _, err := cmpp.NewHeaderFromBytes(b); return err }},
		{name: "smgp.NewHeaderFromBytes", call: func(b []byte) error { _, err := smgp.NewHeaderFromBytes(b); return err }},
		{name: "smpp.ReadTLVs", call: func(b []byte) error { _, err := smpp.ReadTLVs(packet.NewPacketReader(b)); return err }},
		{name: "smpp.ReadTLVs1", call: func(b []byte) error { r := packet.NewPacketReader(b); smpp.ReadTLVs1(r); return r.Error() }},
		{name: "smgp.ParseOptions", call: func(b []byte) error { _, err := smgp.ParseOptions(b); return err }},
		{name: "smgp.ReadOptions", call: func(b []byte) error { r := packet.NewPacketReader(b); smgp.ReadOptions(r); return r.Error() }},
		{name: "ParseLongSmsContent", call: func(b []byte) error { protocol.ParseLongSmsContent(string(b)); return nil }},
		{name: "smpp34.ExtractDeliveryReceipt", call: func(b []byte) error { _, err := smpp34.ExtractDeliveryReceipt(string(b)); return err }},
		{name: "smgp30.ExtractDeliveryReceipt", call: func(b []byte) error { _, err := smgp30.ExtractDeliveryReceipt(string(b)); return err }},
		{name: "smgp30.ExtractDeliveryReceipt1", call: func(b []byte) error { _, err := smgp30.ExtractDeliveryReceipt1(string(b)); return err }},
		{name: "cmpp.SubPduDeliveryContent.IDecode", call: func(b []byte) error { return new(cmpp.SubPduDeliveryContent).IDecode(b) }},
		{name: "datacoding.Ascii.Decode", call: func(b []byte) error { _, err := datacoding.Ascii(b).Decode(); return err }},
		{name: "datacoding.Latin1.Decode", call: func(b []byte) error { _, err := datacoding.Latin1(b).Decode(); return err }},
		{name: "datacoding.UCS2.Decode", call: func(b []byte) error { _, err := datacoding.UCS2(b).Decode(); return err }},
		{name: "datacoding.GB18030.Decode", call: func(b []byte) error { _, err := datacoding.GB18030(b).Decode(); return err }},
		{name: "datacoding.GSM7Packed.Decode", call: func(b []byte) error { _, err := datacoding.GSM7Packed(b).Decode(); return err }},
		{name: "datacoding.GSM7Unpacked.Decode", call: func(b []byte) error { _, err := datacoding.GSM7Unpacked(b).Decode(); return err }},
		{name: "datacoding.Ascii.Encode", call: func(b []byte) error { _, err := datacoding.Ascii(b).Encode(); return err }},
		{name: "datacoding.Latin1.Encode", call: func(b []byte) error { _, err := datacoding.Latin1(b).Encode(); return err }},
		{name: "datacoding.UCS2.Encode", call: func(b []byte) error { _, err := datacoding.UCS2(b).Encode(); return err }},
		{name: "datacoding.GB18030.Encode", call: func(b []byte) error { _, err := datacoding.GB18030(b).Encode(); return err }},
		{name: "datacoding.GSM7Packed.Encode", call: func(b []byte) error { _, err := datacoding.GSM7Packed(b).Encode(); return err }},
		{name: "datacoding.GSM7Unpacked.Encode", call: func(b []byte) error { _, err := datacoding.GSM7Unpacked(b).Encode(); return err }},
		{name: "gsm7encoding.Unpack", call: func(b []byte) error { gsm7encoding.Unpack(b); return nil }},
		{name: "gsm7encoding.Decode", call: func(b []byte) error { _, err := gsm7encoding.Decode(b); return err }},
		{name: "gsm7encoding.Unpack+Decode", call: func(b []byte) error { _, err := gsm7encoding.Decode(gsm7encoding.Unpack(b)); return err }},
		{name: "gsm7encoding.ValidateGSM7Buffer", call: func(b []byte) error { gsm7encoding.ValidateGSM7Buffer(b); return nil }},
		{name: "gsm7encoding.ValidateGSM7String", call: func(b []byte) error { gsm7encoding.ValidateGSM7String(string(b)); return nil }},
		{name: "gsm7encoding.GSM7(packed).Decoder", call: tb(gsm7encoding.GSM7(true).NewDecoder())},
		{name: "gsm7encoding.GSM7(unpacked).Decoder", call: tb(gsm7encoding.GSM7(false).NewDecoder())},
		{name: "gsm7encoding.GSM7(packed).Encoder", call: tb(gsm7encoding.GSM7(true).NewEncoder())},
		{name: "gsm7encoding.GSM7(unpacked).Encoder", call: tb(gsm7encoding.GSM7(false).NewEncoder())},
		{name: "gsm7encoding.GSM7(packed).Decoder.String", allocPerOctet: 512, call: tstr(gsm7encoding.GSM7(true).NewDecoder())},
		{name: "gsm7encoding.GSM7(unpacked).Decoder.String", allocPerOctet: 512, call: tstr(gsm7encoding.GSM7(false).NewDecoder())},
		{name: "gsm7encoding.GSM7(packed).Encoder.String", allocPerOctet: 512, call: tstr(gsm7encoding.GSM7(true).NewEncoder())},
		{name: "gsm7encoding.GSM7(unpacked).Encoder.String", allocPerOctet: 512, call: tstr(gsm7encoding.GSM7(false).NewEncoder())},
		{name: "transform.Writer(GSM7(packed).Decoder)", call: twr(func() transform.Transformer { return gsm7encoding.GSM7(true).NewDecoder() })},
		{name: "transform.Writer(GSM7(unpacked).Decoder)", call: twr(func() transform.Transformer { return gsm7encoding.GSM7(false).NewDecoder() })},
		{name: "transform.Writer(GSM7(packed).Encoder)", call: twr(func() transform.Transformer { return gsm7encoding.GSM7(true).NewEncoder() })},
		{name: "transform.Writer(GSM7(unpacked).Encoder)", call: twr(func() transform.Transformer { return gsm7encoding.GSM7(false).NewEncoder() })},
		{name: "transform.Reader(GSM7(packed).Decoder)", call: trd(func() transform.Transformer { return gsm7encoding.GSM7(true).NewDecoder() })},
		{name: "transform.Reader(GSM7(unpacked).Decoder)", call: trd(func() transform.Transformer { return gsm7encoding.GSM7(false).NewDecoder() })},
		{name: "transform.Reader(GSM7(packed).Encoder)", call: trd(func() transform.Transformer { return gsm7encoding.GSM7(true).NewEncoder() })},
		{name: "transform.Reader(GSM7(unpacked).Encoder)", call: trd(func() transform.Transformer { return gsm7encoding.GSM7(false).NewEncoder() })},
		{name: "cmpp.MsgIDString2Uint64", call: func(b []byte) error { cmpp.MsgIDString2Uint64(string(b)); return nil }},
		{name: "codec.CMPPCodec.Decode", call: func(b []byte) error { _, err := codec.NewCMPPCodec().Decode(&sliceConn{b}); return err }},
		{name: "codec.SMPPCodec.Decode", call: func(b []byte) error { _, err := codec.NewSMPPCodec().Decode(&sliceConn{b}); return err }},
		// the blocking frame readers (codec/*.go are among C03's anchors): a frame is returned as a copy, so 1x the input
		// is legitimate; the announced length itself must cost nothing
		{name: "codec.CMPPCodec.DecodeBlocked", call: func(b []byte) error {
			_, err := codec.NewCMPPCodec().DecodeBlocked(&sliceConn{b})
			return err
		}},
		{name: "codec.SMPPCodec.DecodeBlocked", call: func(b []byte) error {
			_, err := codec.NewSMPPCodec().DecodeBlocked(&sliceConn{b})
			return err
		}},
		{name: "DecodeCMPPCContent(all 256 codings)", allocPerOctet: 64 * 256, allocConst: 256 << 10, call: func(b []byte) error {
			n := 256
			if len(b) > 512 {
				n = 16
			}
			for k := 0; k < n; k++ {
				_, _ = protocol.DecodeCMPPCContent(ctx, string(b), uint8(k))
			}
			return nil
		}},
		{name: "DecodeSMPPCContent(codings -1..20,99,255,300)", allocPerOctet: 64 * 32, allocConst: 128 << 10, call: func(b []byte) error {
			for k := -1; k <= 20; k++ {
				_, _ = protocol.DecodeSMPPCContent(ctx, string(b), k)
			}
			for _, k := range []int{99, 255, 256, 300, -99} {
				_, _ = protocol.DecodeSMPPCContent(ctx, string(b), k)
			}
			return nil
		}},
	}
	return out
}

type c03state struct {
	typed, disp, aux []target
	byFamily         map[string]target
	byType           map[string]target
	allocViol        map[string]int
}

func c03st(w *fw.Worker) *c03state {
	if s, ok := w.State.(*c03state); ok {
		return s
	}
	ts := pdus.Load()
	s := &c03state{typed: typedTargets(ts), disp: dispatcherTargets(), aux: auxTargets(), byFamily: map[string]target{}, byType: map[string]target{}, allocViol: map[string]int{}}
	for i, fam := range pdus.Families {
		s.byFamily[fam] = s.disp[i]
	}
	for _, t := range s.typed {
		s.byType[t.typ.Family+"."+t.typ.Go] = t
	}
	w.State = s
	return s
}

// monitor runs one target on one input under the three resource monitors.
func monitor(c *fw.Case, tg target, in []byte) (err error, bad bool) {
	st := c03st(c.W)
	if st.allocViol[tg.name] >= 2 {
		// this target has already been caught over-allocating twice in this worker; every further
		// gigabyte-sized allocation only costs time and memory and adds nothing to the verdict
		c.Count("calls_skipped_after_2_alloc_violations", 1)
		return nil, false
	}
	buf := append([]byte(nil), in...) // the library gets its own copy; `in` stays the witness
	arm(c, len(in))
	a0 := allocBytes()
	panicked, val, stack := fw.Try(func() { err = tg.call(buf) })
	a1 := allocBytes()
	disarm(c)
	c.Evals(1)
	if panicked {
		c.Failf(fw.PanicSig(val, stack)+"/"+tg.name, "target %s input(%d)=%s\npanic: %v\n%s", tg.name, len(in), hx(in), val, stack)
		return nil, true
	}
	if !tg.allocExempt {
		// second, precise level: the cheap counter above carries up to ~1 MiB of accounting noise, which hides an
		// over-allocation of a few tens of KiB for a 20-octet input (three orders of magnitude, from a 16-bit length
		// field). When the cheap delta exceeds the tight bound, the call is repeated under runtime.ReadMemStats
		// (stop-the-world, mcaches flushed: exact) and the minimum of three exact deltas is judged.
		if tight := tg.constOctets() + tg.perOctet()*uint64(len(in)); a1-a0 > tight {
			exact := ^uint64(0)
			var ms runtime.MemStats
			for rep := 0; rep < 3; rep++ {
				buf2 := append([]byte(nil), in...)
				arm(c, len(in))
				runtime.ReadMemStats(&ms)
				t0 := ms.TotalAlloc
				fw.Try(func() { _ = tg.call(buf2) })
				runtime.ReadMemStats(&ms)
				disarm(c)
				if ms.TotalAlloc-t0 < exact {
					exact = ms.TotalAlloc - t0
				}
			}
			c.Count("exact_alloc_measurements", 1)
			if exact > tight {
				st.allocViol[tg.name]++
				c.Failf("alloc/"+tg.name, "target %s allocated %d octets for a %d-octet input (exact, minimum of three runs; bound %d + %d*len)\ninput=%s", tg.name, exact, len(in), tg.constOctets(), tg.perOctet(), hx(in))
				return err, true
			}
		}
		d := a1 - a0
		bound := uint64(2<<20) + tg.perOctet()*uint64(len(in))
		// runtime/metrics credits small-object spans when an mcache span is swapped, so one delta can carry
		// up to ~1 MiB allocated by earlier calls. A genuine over-allocation repeats on every run of the
		// same input; accounting noise does not: take the minimum of three measurements.
		for rep := 0; rep < 2 && d > bound; rep++ {
			buf2 := append([]byte(nil), in...)
			arm(c, len(in))
			b0 := allocBytes()
			fw.Try(func() { _ = tg.call(buf2) })
			b1 := allocBytes()
			disarm(c)
			if b1-b0 < d {
				d = b1 - b0
			}
		}
		if d > bound {
			st.allocViol[tg.name]++
			debug.FreeOSMemory()
			c.Failf("alloc/"+tg.name, "target %s allocated %d octets for a %d-octet input (bound 2 MiB + %d*len, minimum of three runs)\ninput=%s", tg.name, d, len(in), tg.perOctet(), hx(in))
			return err, true
		}
	}
	if err != nil && err.Error() == "verifmon: dispatcher returned (nil, nil)" {
		c.Failf("nil-nil/"+tg.name, "dispatcher returned a nil PDU and a nil error for %s", hx(in))
	}
	c.Sample(3, map[string]any{"target": tg.name, "input": hx(in), "outcome": outcome(err), "alloc_delta_octets": a1 - a0, "steps": stepsOf(c)})
	if tg.typ != nil && err == nil {
		// accepted: the mandatory part must be complete according to the strict reference parser
		if len(in) < tg.typ.HeaderLen() || pdus.MandatoryLen(tg.typ, in) < 0 {
			c.Failf("truncated-accepted/"+tg.name, "%s accepted an input whose mandatory part is incomplete (reference parser: input ends inside a mandatory field)\ninput(%d)=%s", tg.name, len(in), hx(in))
			return err, true
		}
	}
	return err, false
}

// lengthOffsets returns the offsets (and widths) of length/count fields of a reference image.
func lengthOffsets(t *pdus.Type, v *pdus.Values) (offs []int, widths []int) {
	offs, widths = append(offs, 0), append(widths, 4)
	derived := map[string]bool{}
	for _, f := range t.Fields {
		if f.Count != "" {
			derived[f.Count] = true
		}
		if f.Len != "" {
			derived[f.Len] = true
		}
	}
	pos := t.HeaderLen()
	for _, f := range t.Fields {
		n := len(pdus.RefBody([]pdus.Field{f}, v))
		if derived[f.Spec] {
			offs, widths = append(offs, pos), append(widths, f.W)
		}
		if f.Kind == "tlv" {
			p := pos
			for _, tl := range v.F[f.Spec].([]pdus.TLV) {
				offs, widths = append(offs, p+2), append(widths, 2)
				p += 4 + len(tl.Val)
			}
		}
		pos += n
	}
	return
}

// reusedTarget decodes every input of one case into the SAME PDU object (a recycled PDU): state left behind by an
// earlier decode must not make a later one panic, spin or over-allocate.
func reusedTarget(t *pdus.Type) target {
	obj := t.New()
	return target{name: t.Family + "." + t.Go + ".IDecode(reused object)", call: func(b []byte) error { return obj.IDecode(b) }}
}

func seedImage(c *fw.Case, ts *pdus.Tables) (*pdus.Type, *pdus.Values, []byte) {
	t := typeIdx(ts, c.Idx)
	force, class := -1, 0
	if c.R.Chance(1, 2) {
		force, class = pdus.SweepPick(t, c.R.Intn(pdus.SweepSize(t)))
	}
	v, _ := pdus.Gen(t, c.R, force, class)
	// keep the seeds small enough for exhaustive per-offset mutation
	for i := range t.Fields {
		f := &t.Fields[i]
		if f.Kind == "list" {
			if l := v.F[f.Spec].([][]byte); len(l) > 3 {
				v.F[f.Spec] = l[:3]
				v.F[f.Count] = uint64(3)
			}
		}
		if f.Kind == "body" {
			if b := v.F[f.Spec].([]byte); len(b) > 40 {
				v.F[f.Spec] = b[:40]
				v.F[f.Len] = uint64(40)
			}
		}
		if f.Kind == "tlv" {
			l := v.F[f.Spec].([]pdus.TLV)
			for k := range l {
				if len(l[k].Val) > 24 {
					l[k].Val = l[k].Val[:24]
					l[k].Len = 24
				}
			}
			if len(l) > 3 {
				l = l[:3]
			}
			v.F[f.Spec] = l
		}
	}
	return t, v, pdus.RefEncode(t, v)
}

func init() {
	ts := func() *pdus.Tables { return pdus.Load() }
	fw.Register(&fw.Prop{
		ID:        "C03",
		Technique: "runtime resource monitors (panic capture, logical step budget via Tick hooks, runtime/metrics allocation delta) around every decoder/parser on mutated and unstructured inputs; strict reference parser decides 'mandatory part incomplete'",
		Rule: "inputs = reference images of generated PDUs mutated structurally (every truncation point, every length/count field x boundary values, every offset x 5 octet values, trailing garbage 1..16, TLV-tail surgery) plus unstructured strings 0..64 KiB, fed to 57 IDecodes, 5 dispatchers and 45 auxiliary parsers; " +
			"distinct_nontrivial = distinct (stage, target, outcome class[, PDU type, mutation class]) combinations observed, outcome class in {accepted, error}",
		Assumptions: []string{
			"allocation bound 2 MiB + 64*len(input) per call (512*len for the four String() entry points, whose x/text driver retries ~log2(n) times), minimum of three measurements, then an exact second level at 24 KiB + 64*len (DESIGN 3.3); the blocking frame readers are judged like every other target",
			"a hang is a logical-step overrun: 64*(len+1024) Tick events per call; loops without a Tick site are covered only by the wall-clock watchdog (inconclusive)",
		},
		Conclude: func(total *fw.Result) []string {
			if total.Counters["hook_events/tick"] == 0 {
				return []string{"the Tick hook produced no event: the step-budget monitor (hang detection) observed nothing — is the library built with -tags verif?"}
			}
			return nil
		},
		Stages: []*fw.Stage{
			{
				Name: "truncate", N: q(15000, 400000),
				Run: func(c *fw.Case) {
					s := c03st(c.W)
					t, _, img := seedImage(c, ts())
					tt, dd, ru := s.byType[t.Family+"."+t.Go], s.byFamily[t.Family], reusedTarget(t)
					mand := pdus.MandatoryLen(t, img)
					for cut := 0; cut <= len(img); cut++ {
						err, _ := monitor(c, tt, img[:cut])
						if cut < mand && err == nil {
							// (already reported by monitor through the reference parser; kept for the count)
							c.Count("truncated_inside_mandatory_accepted", 1)
						}
						if cut < mand {
							c.Count("cuts_inside_mandatory", 1)
						}
						derr, _ := monitor(c, dd, img[:cut])
						monitor(c, ru, img[:cut])
						if cut < mand && derr == nil {
							c.Failf("truncated-accepted/Decode/"+t.Family+"/"+t.Go, "dispatcher accepted %s cut at %d of %d (mandatory part %d)\ninput=%s", t.Key(), cut, len(img), mand, hx(img[:cut]))
						}
						c.Cover(fmt.Sprintf("truncate/%s/%s", t.Key(), outcome(err)))
					}
				},
			},
			{
				Name: "lengthfields", N: q(20000, 500000),
				Run: func(c *fw.Case) {
					s := c03st(c.W)
					t, v, img := seedImage(c, ts())
					tt, dd, ru := s.byType[t.Family+"."+t.Go], s.byFamily[t.Family], reusedTarget(t)
					offs, widths := lengthOffsets(t, v)
					for i, off := range offs {
						var vals []uint64
						switch widths[i] {
						case 1:
							vals = []uint64{0, 1, 0x7f, 0x80, 0xff}
						case 2:
							vals = []uint64{0, 1, 0x7f, 0x80, 0xff, 0x7fff, 0x8000, 0xffff, uint64(len(img))}
						default:
							vals = []uint64{0, 1, 3, 4, uint64(len(img) - 1), uint64(len(img) + 1), 0x10000, 0x4000000, 0x7fffffff, 0x80000000, 0xfffffff0, 0xffffffff}
						}
						for _, x := range vals {
							if x > 1<<28 && (s.allocViol[tt.name] > 0 || s.allocViol[dd.name] > 0) {
								// the 64 MiB value has already shown that this decoder allocates what the field announces;
								// gigabyte-sized repeats would only exhaust the machine
								c.Count("giant_lengths_skipped_after_alloc_violation", 1)
								continue
							}
							m := append([]byte(nil), img...)
							switch widths[i] {
							case 1:
								m[off] = byte(x)
							case 2:
								binary.BigEndian.PutUint16(m[off:], uint16(x))
							default:
								binary.BigEndian.PutUint32(m[off:], uint32(x))
							}
							err, _ := monitor(c, tt, m)
							monitor(c, dd, m)
							monitor(c, ru, m)
							c.Cover(fmt.Sprintf("lengthfields/%s/w%d/%s", t.Key(), widths[i], outcome(err)))
						}
					}
				},
			},
			{
				Name: "octets", N: q(6000, 150000),
				Run: func(c *fw.Case) {
					s := c03st(c.W)
					t, v, img := seedImage(c, ts())
					tt, dd, ru := s.byType[t.Family+"."+t.Go], s.byFamily[t.Family], reusedTarget(t)
					if len(img) > 220 {
						img = img[:220]
					}
					big := map[int]bool{}
					offs, widths := lengthOffsets(t, v)
					for i, off := range offs {
						if widths[i] == 4 && off > 0 {
							big[off] = true
						}
					}
					for off := range img {
						for _, x := range []byte{0, 1, 0x7f, 0x80, 0xff} {
							if img[off] == x {
								continue
							}
							if big[off] && x > 0x3f {
								x = 0x3f // top octet of a 32-bit length field: stay below 1 GiB (lengthfields covers the giants once)
							}
							m := append([]byte(nil), img...)
							m[off] = x
							err, _ := monitor(c, tt, m)
							monitor(c, dd, m)
							monitor(c, ru, m)
							c.Cover(fmt.Sprintf("octets/%s/%s", t.Key(), outcome(err)))
						}
					}
				},
			},
			{
				Name: "garbage", N: q(20000, 500000),
				Run: func(c *fw.Case) {
					s := c03st(c.W)
					t, _, img := seedImage(c, ts())
					tt, dd, ru := s.byType[t.Family+"."+t.Go], s.byFamily[t.Family], reusedTarget(t)
					for n := 1; n <= 16; n++ {
						m := append(append([]byte(nil), img...), c.R.Bytes(n)...)
						if c.R.Bool() {
							binary.BigEndian.PutUint32(m, uint32(len(m)))
						}
						err, _ := monitor(c, tt, m)
						monitor(c, dd, m)
						monitor(c, ru, m)
						c.Cover(fmt.Sprintf("garbage/%s/%s", t.Key(), outcome(err)))
					}
				},
			},
			{
				Name: "havoc", N: q(60000, 3000000),
				Run: func(c *fw.Case) {
					// unguided stand-in for a fuzzer's havoc phase: 1..8 stacked random edits of a reference image
					s := c03st(c.W)
					t, _, img := seedImage(c, ts())
					tt, dd, ru := s.byType[t.Family+"."+t.Go], s.byFamily[t.Family], reusedTarget(t)
					r := c.R
					for round := 0; round < 6; round++ {
						m := append([]byte(nil), img...)
						for k, n := 0, r.Range(1, 8); k < n && len(m) > 0; k++ {
							switch r.Intn(8) {
							case 0: // bit flip
								i := r.Intn(len(m))
								m[i] ^= 1 << uint(r.Intn(8))
							case 1: // interesting byte
								m[r.Intn(len(m))] = byte(r.Pick(0, 1, 0x1b, 0x7f, 0x80, 0xfe, 0xff))
							case 2: // delete a block
								i := r.Intn(len(m))
								j := i + r.Range(1, 8)
								if j > len(m) {
									j = len(m)
								}
								m = append(m[:i], m[j:]...)
							case 3: // duplicate a block
								i := r.Intn(len(m))
								j := i + r.Range(1, 12)
								if j > len(m) {
									j = len(m)
								}
								blk := append([]byte(nil), m[i:j]...)
								m = append(m[:j], append(blk, m[j:]...)...)
							case 4: // insert zeros
								i := r.Intn(len(m) + 1)
								m = append(m[:i], append(make([]byte, r.Range(1, 6)), m[i:]...)...)
							case 5: // 16-bit interesting value (kept small enough not to be an allocation test by itself)
								if len(m) >= 2 {
									i := r.Intn(len(m) - 1)
									binary.BigEndian.PutUint16(m[i:], uint16(r.Pick(0, 1, 0xff, 0x100, 0x7fff, 0x8000, 0xffff)))
								}
							case 6: // fix up the length word
								if len(m) >= 4 {
									binary.BigEndian.PutUint32(m, uint32(len(m)))
								}
							default: // truncate
								m = m[:r.Intn(len(m)+1)]
							}
						}
						err, _ := monitor(c, tt, m)
						monitor(c, dd, m)
						monitor(c, ru, m)
						c.Cover(fmt.Sprintf("havoc/%s/%s", t.Key(), outcome(err)))
					}
				},
			},
			{
				Name: "tlvtails", N: q(100000, 3000000),
				Run: func(c *fw.Case) {
					s := c03st(c.W)
					// a type with an optional tail, its mandatory part, then a tail built by surgery
					var cands []*pdus.Type
					for _, t := range ts().Types {
						if len(t.Fields) > 0 && t.Fields[len(t.Fields)-1].Kind == "tlv" {
							cands = append(cands, t)
						}
					}
					t := cands[c.Idx%uint64(len(cands))]
					v, _ := pdus.Gen(t, c.R, len(t.Fields)-1, 0)
					head := pdus.RefEncode(t, v)
					tail, kind := tlvSurgery(c.R)
					m := append(append([]byte(nil), head...), tail...)
					binary.BigEndian.PutUint32(m, uint32(len(m)))
					err, _ := monitor(c, s.byType[t.Family+"."+t.Go], m)
					monitor(c, s.byFamily[t.Family], m)
					for _, a := range s.aux {
						switch a.name {
						case "smpp.ReadTLVs", "smpp.ReadTLVs1", "smgp.ParseOptions", "smgp.ReadOptions":
							aerr, _ := monitor(c, a, tail)
							c.Cover("tlvtails/" + a.name + "/" + kind + "/" + outcome(aerr))
						}
					}
					c.Cover("tlvtails/" + t.Key() + "/" + kind + "/" + outcome(err))
				},
			},
			{
				Name: "unstructured", N: q(20000, 500000),
				Run: func(c *fw.Case) {
					s := c03st(c.W)
					in, kind := unstructured(c)
					for _, tg := range s.typed {
						err, _ := monitor(c, tg, in)
						c.Cover("unstructured/" + tg.name + "/" + outcome(err))
					}
					for _, tg := range s.disp {
						err, _ := monitor(c, tg, in)
						c.Cover("unstructured/" + tg.name + "/" + outcome(err))
					}
					for _, tg := range s.aux {
						err, _ := monitor(c, tg, in)
						c.Cover("unstructured/" + tg.name + "/" + kind + "/" + outcome(err))
					}
				},
			},
			{
				// thorough tier only: everything Go's coverage-guided engine kept (interesting inputs and crashers, written by
				// `go test -fuzz` which ./check runs first) is re-judged here by the deterministic monitors
				Name: "fuzzfound",
				N: func(t fw.Tier) uint64 {
					if t != fw.Thorough {
						return 0
					}
					return uint64(len(fuzzFiles())) + 1
				},
				Run: func(c *fw.Case) {
					files := fuzzFiles()
					if int(c.Idx) >= len(files) {
						c.Count("fuzz_corpus_files", uint64(len(files)))
						if b, err := os.ReadFile(os.Getenv("VERIF_FUZZ_LOG")); err == nil {
							// last progress line of the engine: "fuzz: elapsed: 3s, execs: 200000 (43387/sec), new interesting: 344 (total: 471)"
							lines := strings.Split(strings.TrimSpace(string(b)), "\n")
							for i := len(lines) - 1; i >= 0; i-- {
								if k := strings.Index(lines[i], "execs: "); k >= 0 {
									var n uint64
									fmt.Sscanf(lines[i][k+7:], "%d", &n)
									c.Count("fuzz_engine_executions", n)
									break
								}
							}
						}
						c.Cover("fuzzfound/engine-run-recorded")
						return
					}
					sel, data, ok := readFuzzFile(files[c.Idx])
					if !ok {
						c.Count("fuzz_files_unreadable", 1)
						return
					}
					s := c03st(c.W)
					all := append(append(append([]target(nil), s.typed...), s.disp...), s.aux...)
					tg := all[sel%len(all)]
					err, _ := monitor(c, tg, data)
					c.Count("fuzz_inputs_rejudged", 1)
					c.Cover("fuzzfound/" + tg.name + "/" + outcome(err))
				},
			},
			{
				// what a call allocates must be proportional to ITS input, not to what earlier calls left behind: a run of
				// long inputs that are refused near their end (a pooled buffer, a cache or a long-lived object could keep
				// their partial results), then a few octets. The whole run is repeated three times and the small call is
				// measured exactly each time (min of three): state left by refused calls repeats, accounting noise does not.
				Name: "after-refusals", N: q(1200, 60000),
				Run: func(c *fw.Case) {
					st := c03st(c.W)
					r := c.R
					all := append(append([]target(nil), st.aux...), st.disp...)
					tg := all[int(c.Idx)%len(all)]
					if tg.allocExempt || st.allocViol[tg.name] >= 2 {
						return
					}
					letters := make([]rune, r.Range(900, 1400))
					for i := range letters {
						letters[i] = rune('a' + r.Intn(26))
					}
					t := string(letters)
					form := r.Intn(4)
					mk := func(text string, damaged bool) []byte {
						switch form {
						case 0:
							b := refSeptets(text)
							if damaged {
								b = append(b, 0x1b, 0x1b)
							}
							return b
						case 1:
							sp := refSeptets(text)
							if damaged {
								sp = append(sp, 0x1b, 0x1b)
							}
							return ref.Pack(sp)
						case 2:
							b := refUTF16(text)
							if damaged {
								b = append(b, 0xd8, 0x00, 0x00)
							}
							return b
						}
						b := []byte(text)
						if damaged {
							b = append(b, 0x81, 0xff, 0x1b)
						}
						return b
					}
					long, small := mk(t, true), mk(t[:r.Range(1, 6)], false)
					K := 64
					exact := ^uint64(0)
					var ms runtime.MemStats
					for rep := 0; rep < 3; rep++ {
						for k := 0; k < K; k++ {
							in := append([]byte(nil), long...)
							arm(c, len(in))
							pan, val, stack := fw.Try(func() { _ = tg.call(in) })
							disarm(c)
							if pan {
								c.Failf(fw.PanicSig(val, stack)+"/"+tg.name, "target %s input(%d)=%s\npanic: %v\n%s", tg.name, len(long), hx(long), val, stack)
								return
							}
						}
						in := append([]byte(nil), small...)
						arm(c, len(in))
						runtime.ReadMemStats(&ms)
						t0 := ms.TotalAlloc
						fw.Try(func() { _ = tg.call(in) })
						runtime.ReadMemStats(&ms)
						disarm(c)
						if d := ms.TotalAlloc - t0; d < exact {
							exact = d
						}
					}
					c.Evals(uint64(3 * (K + 1)))
					if tight := tg.constOctets() + tg.perOctet()*uint64(len(small)); exact > tight {
						st.allocViol[tg.name]++
						c.Failf("alloc-after-refused-calls/"+tg.name, "target %s allocated %d octets for a %d-octet input (exact, minimum of three runs; bound %d + %d*len) when the %d calls before it were given %d-octet inputs that go wrong at their end\nsmall input=%s\nlong input=%s",
							tg.name, exact, len(small), tg.constOctets(), tg.perOctet(), K, len(long), hx(small), hx(long))
						return
					}
					c.Cover(fmt.Sprintf("after-refusals/%s/%d", tg.name, form))
				},
			},
			{
				Name: "textparsers", N: q(300000, 10000000),
				Run: func(c *fw.Case) {
					s := c03st(c.W)
					in, kind := textInput(c)
					for _, tg := range s.aux {
						err, _ := monitor(c, tg, in)
						c.Cover("textparsers/" + tg.name + "/" + kind + "/" + outcome(err))
					}
				},
			},
		},
	})
}

func stepsOf(c *fw.Case) uint64 {
	if c.W.Hooks == nil {
		return 0
	}
	return c.W.Hooks.Steps()
}

func outcome(err error) string {
	if err == nil {
		return "accepted"
	}
	return "error"
}

func tlvSurgery(r *fw.Rng) ([]byte, string) {
	mk := func(tag uint16, ln int, val []byte) []byte {
		b := []byte{byte(tag >> 8), byte(tag), byte(ln >> 8), byte(ln)}
		return append(b, val...)
	}
	n := r.Range(1, 4)
	var out []byte
	for i := 0; i < n; i++ {
		l := r.Pick(0, 1, 2, 7, 40)
		out = append(out, mk(uint16(r.Range(0, 0x30)), l, r.Bytes(l))...)
	}
	switch k := r.Intn(9); k {
	case 0:
		return out, "wellformed"
	case 1: // duplicated tags
		return append(out, out...), "duplicated"
	case 2: // truncated inside the last header
		return append(out, r.Bytes(r.Range(1, 3))...), "cut-in-header"
	case 3: // header announcing more than is there
		l := r.Pick(1, 5, 255, 256, 0x7fff, 0xffff)
		return append(out, mk(uint16(r.U32()), l, r.Bytes(r.Intn(min(l, 20))))...), "cut-in-value"
	case 4: // length that overlaps the next triplet
		a := mk(1, 8, r.Bytes(2))
		return append(append(out, a...), mk(2, 2, r.Bytes(2))...), "overlapping"
	case 5: // zero-length value at the very end
		return append(out, mk(uint16(r.U32()), 0, nil)...), "empty-last"
	case 6: // maximum length value, complete
		return append(out, mk(uint16(r.U32()), 65535, r.Bytes(65535))...), "max-value"
	case 7: // only zeros
		return make([]byte, r.Range(1, 64)), "zeros"
	default:
		return r.Bytes(r.Range(1, 64)), "random"
	}
}

func unstructured(c *fw.Case) ([]byte, string) {
	r := c.R
	var n int
	switch r.Intn(6) {
	case 0:
		n = r.Range(0, 24)
	case 1:
		n = r.Range(0, 300)
	case 2:
		n = r.Pick(0, 1, 3, 4, 11, 12, 15, 16, 19, 20, 21, 139, 140, 141, 255, 256)
	case 3:
		n = r.Range(300, 5000)
	case 4:
		n = r.Pick(65535, 65536, 65537, 40000)
	default:
		n = r.Range(0, 64)
	}
	switch r.Intn(7) {
	case 0:
		return make([]byte, n), "zeros"
	case 1:
		b := make([]byte, n)
		for i := range b {
			b[i] = 0xff
		}
		return b, "ff"
	case 2: // plausible header, random body
		b := r.Bytes(n)
		if n >= 8 {
			binary.BigEndian.PutUint32(b, uint32(n))
			ids := []uint32{1, 2, 3, 4, 5, 6, 7, 8, 9, 0x15, 0x80000000, 0x80000001, 0x80000002, 0x80000003, 0x80000004, 0x80000005, 0x80000006, 0x80000008, 0x80000009, 0x80000015}
			binary.BigEndian.PutUint32(b[4:], ids[r.Intn(len(ids))])
		}
		return b, "header+random"
	case 3: // 7-bit data
		b := r.Bytes(n)
		for i := range b {
			b[i] &= 0x7f
		}
		return b, "septets"
	case 4: // 0x1b-rich
		b := r.Bytes(n)
		for i := range b {
			if r.Chance(1, 3) {
				b[i] = 0x1b
			} else {
				b[i] &= 0x7f
			}
		}
		return b, "escapes"
	default:
		return r.Bytes(n), "random"
	}
}

var receiptWords = []string{"id:", "sub:", "dlvrd:", "submit date:", "done date:", "stat:", "err:", "text:", "Text:", "Sub", "Dlvrd", "Submit_Date", "Done_Date", "Stat", "Err", "Text",
	"Sub:", "Dlvrd:", "Submit_Date:", "Done_Date:", "Stat:", "Err:", " ", " ", "  ", "DELIVRD", "001", "2410011200", "\x00", "id", ":", "0123456789"}

func textInput(c *fw.Case) ([]byte, string) {
	r := c.R
	if r.Chance(1, 4) {
		// VALID encoded text (and valid text with its last octets cut or one octet changed): the deep paths of the
		// text decoders are only reached by input that is mostly right
		t, _ := randomText(r, 120)
		var b []byte
		kind := ""
		switch r.Intn(5) {
		case 0:
			b, kind = refSeptets(t), "valid-gsm7-septets"
		case 1:
			b, kind = refPacked(t), "valid-gsm7-packed"
		case 2:
			b, kind = refUTF16(t), "valid-ucs2"
		case 3:
			b, _ = datacoding.GB18030(t).Encode()
			kind = "valid-gb18030"
		default:
			b, _ = datacoding.Latin1(t).Encode()
			kind = "valid-latin1"
		}
		switch r.Intn(4) {
		case 0:
			if len(b) > 0 {
				b = b[:len(b)-1-r.Intn(min(len(b), 3))]
				kind += "-cut"
			}
		case 1:
			if len(b) > 0 {
				b = append([]byte(nil), b...)
				b[r.Intn(len(b))] = byte(r.Pick(0, 0x1b, 0x65, 0x7f, 0x80, 0xd8, 0xdc, 0xff))
				kind += "-1changed"
			}
		}
		return b, kind
	}
	switch r.Intn(8) {
	case 0, 1, 2: // receipt-like token soup
		var b []byte
		for i, n := 0, r.Range(0, 12); i < n; i++ {
			b = append(b, receiptWords[r.Intn(len(receiptWords))]...)
			if r.Chance(1, 3) {
				b = append(b, r.Bytes(r.Range(0, 6))...)
			}
		}
		return b, "receipt-soup"
	case 3: // single tokens and their prefixes
		w := receiptWords[r.Intn(len(receiptWords))]
		return []byte(w[:r.Range(0, len(w))] + string(r.Bytes(r.Range(0, 3)))), "receipt-token"
	case 4: // concatenation headers and near misses
		if r.Chance(1, 2) {
			// a user data header as TS 23.040 builds it: UDHL, then information elements (id, length, data) — well formed
			// up to the last element, which names a concatenation id (00 / 08) and is damaged: its length octet too small
			// or too large for what it is, the content ending right behind it or inside it
			var ies []byte
			for n := r.Intn(3); n > 0; n-- {
				id := byte(r.Pick(0x04, 0x05, 0x24, 0x25, 0x01, 0x70, int(r.U32()&0xff)))
				d := r.Bytes(r.Pick(0, 1, 2, 4, 4))
				ies = append(append(ies, id, byte(len(d))), d...)
			}
			last := []byte{byte(r.Pick(0x00, 0x08)), byte(r.Pick(0, 1, 2, 3, 4, 5, 0xff))}
			last = append(last, r.Bytes(r.Pick(0, 0, 1, 2, 3, 4))...)
			ies = append(ies, last...)
			udhl := len(ies)
			if r.Chance(1, 4) {
				udhl += r.Pick(-1, 1, 2, 100)
			}
			b := append([]byte{byte(udhl)}, ies...)
			if r.Chance(1, 3) {
				b = append(b, r.Bytes(r.Range(1, 6))...)
			}
			return b, "udh-element-chain"
		}
		b := []byte{5, 0, 3, byte(r.U32()), byte(r.U32()), byte(r.U32())}
		if r.Bool() {
			b = []byte{6, 8, 4, byte(r.U32()), byte(r.U32()), byte(r.U32()), byte(r.U32())}
		}
		if r.Chance(1, 2) {
			b[r.Intn(3)] = byte(r.U32())
		}
		b = b[:r.Range(0, len(b))]
		return append(b, r.Bytes(r.Range(0, 8))...), "udh"
	case 5: // digit strings for the message-id parser
		n := r.Range(0, 30)
		b := make([]byte, n)
		for i := range b {
			b[i] = byte('0' + r.Intn(10))
		}
		if r.Chance(1, 4) && n > 0 {
			b[r.Intn(n)] = byte(r.U32())
		}
		return b, "digits"
	case 6: // UTF-8 text with multi-byte runes
		rs := []rune{'a', '@', 0x20ac, 0x4e2d, 0x1f600, 0xe000, 0x7f, 0x80, 0xff, 0x100, '[', 0x0c, 0xfffd, 0xd7ff}
		var s []rune
		for i, n := 0, r.Range(0, 40); i < n; i++ {
			s = append(s, rs[r.Intn(len(rs))])
		}
		return []byte(string(s)), "utf8"
	default:
		b := r.Bytes(r.Range(0, 40))
		return b, "random"
	}
}

// ---------------------------------------------------------------------------
// native fuzzing support (thorough tier): the same three resource monitors, callable from a Go fuzz target

var fuzzJ struct {
	once    sync.Once
	targets []target
	hooks   *fw.Hooks
}

func fuzzInit() {
	fuzzJ.once.Do(func() {
		ts := pdus.Load()
		fuzzJ.targets = append(append(typedTargets(ts), dispatcherTargets()...), auxTargets()...)
		fuzzJ.hooks = fw.NewHooks()
		fw.InstallHooks(fuzzJ.hooks)
	})
}

// dripReader hands out its octets n at a time.
type dripReader struct {
	b []byte
	n int
}

func (d *dripReader) Read(p []byte) (int, error) {
	if len(d.b) == 0 {
		return 0, io.EOF
	}
	k := d.n
	if k > len(d.b) {
		k = len(d.b)
	}
	if k > len(p) {
		k = len(p)
	}
	copy(p, d.b[:k])
	d.b = d.b[k:]
	return k, nil
}

// C03TargetCount is the number of decoder/parser entry points the fuzz target can select.
func C03TargetCount() int { fuzzInit(); return len(fuzzJ.targets) }

// C03TargetName names entry point sel.
func C03TargetName(sel int) string { fuzzInit(); return fuzzJ.targets[sel%len(fuzzJ.targets)].name }

// C03Judge runs entry point sel on in under the panic / step-budget / allocation monitors and the
// truncated-mandatory clause. sig == "" means nothing to report.
func C03Judge(sel int, in []byte) (sig, detail string) {
	fuzzInit()
	tg := fuzzJ.targets[sel%len(fuzzJ.targets)]
	if len(in) > 1<<16 {
		in = in[:1<<16]
	}
	h := fuzzJ.hooks
	measure := func() (err error, pan bool, val any, stack string, delta uint64) {
		buf := append([]byte(nil), in...)
		h.ResetCase(0)
		h.SetBudget(64 * uint64(len(in)+1024))
		a0 := allocBytes()
		pan, val, stack = fw.Try(func() { err = tg.call(buf) })
		a1 := allocBytes()
		h.SetBudget(0)
		return err, pan, val, stack, a1 - a0
	}
	err, pan, val, stack, d := measure()
	if pan {
		return fw.PanicSig(val, stack) + "/" + tg.name, fmt.Sprintf("target %s input(%d)=%s\npanic: %v\n%s", tg.name, len(in), hx(in), val, stack)
	}
	if !tg.allocExempt {
		bound := uint64(2<<20) + tg.perOctet()*uint64(len(in))
		for rep := 0; rep < 2 && d > bound; rep++ {
			if _, _, _, _, d2 := measure(); d2 < d {
				d = d2
			}
		}
		if d > bound {
			debug.FreeOSMemory()
			return "alloc/" + tg.name, fmt.Sprintf("target %s allocated %d octets for a %d-octet input\ninput=%s", tg.name, d, len(in), hx(in))
		}
	}
	if tg.typ != nil && err == nil && (len(in) < tg.typ.HeaderLen() || pdus.MandatoryLen(tg.typ, in) < 0) {
		return "truncated-accepted/" + tg.name, fmt.Sprintf("%s accepted an input whose mandatory part is incomplete\ninput(%d)=%s", tg.name, len(in), hx(in))
	}
	return "", ""
}

// C03FuzzSeeds returns (selector, image) seeds for the fuzz corpus: one reference image per PDU type for its
// typed decoder and its dispatcher, and a few text-parser inputs.
func C03FuzzSeeds() (sels []int, data [][]byte) {
	fuzzInit()
	ts := pdus.Load()
	r := fw.NewRng(20261003)
	idx := map[string]int{}
	for i, tg := range fuzzJ.targets {
		idx[tg.name] = i
	}
	for _, t := range ts.Types {
		v, _ := pdus.Gen(t, r, -1, 0)
		img := pdus.RefEncode(t, v)
		if len(img) > 400 {
			continue
		}
		sels, data = append(sels, idx[t.Family+"."+t.Go+".IDecode"]), append(data, img)
		sels, data = append(sels, idx["Decode/"+t.Family]), append(data, img)
	}
	for name, in := range map[string]string{
		"smgp30.ExtractDeliveryReceipt": "id:0123456789 sub:001 Dlvrd:001 Submit_Date:2410011200 done date:2410011201 stat:DELIVRD err:000 text:hello",
		"smpp34.ExtractDeliveryReceipt": "id:abc sub:001 dlvrd:001 submit date:2410011200 done date:2410011201 stat:DELIVRD err:000 text:hi",
		"ParseLongSmsContent":           "\x05\x00\x03\x6b\x02\x01payload",
		"gsm7encoding.Unpack+Decode":    "\xd4\xf2\x9c\x0e\x9a\x36\xa7\x2e",
		"smpp.ReadTLVs":                 "\x02\x04\x00\x02\x00\x01\x13\x0c\x00\x00",
		"smgp.ParseOptions":             "\x00\x01\x00\x01\x00\x00\x02\x00\x01\x01",
		"cmpp.MsgIDString2Uint64":       "0101000000000000100001",
		"datacoding.GB18030.Decode":     "\xd6\xd0\xce\xc4\x81\x30\x81\x30",
		"datacoding.UCS2.Decode":        "\x4e\x2d\xd8\x3d\xde\x00",
	} {
		if i, ok := idx[name]; ok {
			sels, data = append(sels, i), append(data, []byte(in))
		}
	}
	return
}

// fuzzFiles lists the corpus files of the native fuzz run (VERIF_FUZZ_DIRS = colon-separated directories).
func fuzzFiles() []string {
	var out []string
	for _, d := range strings.Split(os.Getenv("VERIF_FUZZ_DIRS"), ":") {
		if d == "" {
			continue
		}
		_ = filepath.Walk(d, func(p string, info os.FileInfo, err error) error {
			if err == nil && !info.IsDir() {
				out = append(out, p)
			}
			return nil
		})
	}
	sort.Strings(out)
	return out
}

// readFuzzFile parses Go's corpus file format ("go test fuzz v1", one value per line).
func readFuzzFile(path string) (sel int, data []byte, ok bool) {
	b, err := os.ReadFile(path)
	if err != nil {
		return 0, nil, false
	}
	lines := strings.Split(strings.TrimSpace(string(b)), "\n")
	if len(lines) < 3 || !strings.HasPrefix(lines[0], "go test fuzz v1") {
		return 0, nil, false
	}
	for _, ln := range lines[1:] {
		ln = strings.TrimSpace(ln)
		switch {
		case strings.HasPrefix(ln, "uint16(") && strings.HasSuffix(ln, ")"):
			n, err := strconv.ParseUint(ln[7:len(ln)-1], 0, 16)
			if err != nil {
				return 0, nil, false
			}
			sel = int(n)
		case strings.HasPrefix(ln, "[]byte(") && strings.HasSuffix(ln, ")"):
			q, err := strconv.Unquote(ln[7 : len(ln)-1])
			if err != nil {
				return 0, nil, false
			}
			data = []byte(q)
		}
	}
	return sel, data, true
}

func refSeptets(t string) []byte {
	tab := ref.GSM7()
	var out []byte
	for _, r := range t {
		if e, ok := tab.FromRun[r]; ok {
			out = append(out, e...)
		}
	}
	return out
}

func refPacked(t string) []byte { return ref.Pack(refSeptets(t)) }

func refUTF16(t string) []byte { return ref.UTF16BE(t) }
