package props

import (
	"fmt"

	"github.com/hujm2023/go-sms-protocol/cmpp"

	"verifmon/fw"
)

// C17 — CMPP message id: specified bit layout, lossless split/compose/string form.

type idParts [7]uint64 // month day hour minute second gateway sequence

var idMax = idParts{15, 31, 31, 63, 63, 1<<22 - 1, 65535}
var idShift = [7]uint{60, 55, 50, 44, 38, 16, 0} // CMPP: bit64~61 month, 60~56 day, 55~51 hour, 50~45 minute, 44~39 second, 38~17 gateway, 16~1 sequence

func refCombine(p idParts) uint64 {
	var id uint64
	for i := range p {
		id |= p[i] << idShift[i]
	}
	return id
}

func c17Check(c *fw.Case, p idParts, class string) {
	c.Evals(1)
	want := refCombine(p)
	var got uint64
	var back idParts
	if pan, val, st := fw.Try(func() {
		got = cmpp.CombineMsgID(p[0], p[1], p[2], p[3], p[4], p[5], p[6])
		back[0], back[1], back[2], back[3], back[4], back[5], back[6] = cmpp.SplitMsgID(got)
	}); pan {
		c.Failf("msgid-"+fw.PanicSig(val, st), "%v: %v\n%s", p, val, st)
		return
	}
	if got != want {
		c.Failf("combine-layout", "CombineMsgID%v = %#016x, the CMPP bit layout gives %#016x", p, got, want)
	}
	if back != p {
		c.Failf("split-of-combine", "SplitMsgID(CombineMsgID%v) = %v", p, back)
	}
	c17ID(c, want, class)
}

func c17ID(c *fw.Case, id uint64, class string) {
	c.Evals(1)
	var re uint64
	var s string
	var parsed uint64
	if pan, val, st := fw.Try(func() {
		a, b, d, e, f, g, h := cmpp.SplitMsgID(id)
		re = cmpp.CombineMsgID(a, b, d, e, f, g, h)
		s = cmpp.MsgID2String(id)
		parsed = cmpp.MsgIDString2Uint64(s)
	}); pan {
		c.Failf("msgid-"+fw.PanicSig(val, st), "id %#x: %v\n%s", id, val, st)
		return
	}
	if re != id {
		c.Failf("combine-of-split", "CombineMsgID(SplitMsgID(%#016x)) = %#016x", id, re)
	}
	if id != 0 {
		if len(s) != 22 {
			c.Failf("string-form-length", "MsgID2String(%#016x) = %q (%d characters, expected 22 decimal digits)", id, s, len(s))
		}
		for i := 0; i < len(s); i++ {
			if s[i] < '0' || s[i] > '9' {
				c.Failf("string-form-digits", "MsgID2String(%#016x) = %q contains a non-digit", id, s)
				break
			}
		}
		if parsed != id {
			c.Failf("string-roundtrip", "MsgIDString2Uint64(MsgID2String(%#016x) = %q) = %#016x", id, s, parsed)
		}
	}
	c.Cover("msgid/" + class)
}

func init() {
	fw.Register(&fw.Prop{
		ID:        "C17",
		Technique: "runtime monitor: bit-layout reference (shifts taken from the CMPP text) + round-trip oracles, each field enumerated over its full range",
		Rule: "each of the seven fields over its full range (gateway: all 2^22 values) with the other fields at all-zero, all-max and random (exhaustive per field), random tuples, boundary bit patterns and random 64-bit ids; " +
			"distinct_nontrivial = distinct (field swept, background class) / pattern classes judged",
		Assumptions: []string{"bit positions from CMPP 2.0/3.0 §8.3 Msg_Id (bit64~61 month … bit16~1 sequence)"},
		Stages: []*fw.Stage{
			{
				Name: "fieldsweep", Exhaustive: "every field over its full range x background {all-0, all-max, random}: month 16, day 32, hour 32, minute 64, second 64, gateway 2^22, sequence 2^16 values",
				N: func(fw.Tier) uint64 { return 7 * 3 * 64 },
				Run: func(c *fw.Case) {
					field := int(c.Idx % 7)
					bg := int(c.Idx / 7 % 3)
					chunk := int(c.Idx / 21) // 0..63: the field range is cut into 64 chunks
					n := idMax[field] + 1
					lo, hi := n*uint64(chunk)/64, n*uint64(chunk+1)/64
					for x := lo; x < hi; x++ {
						var p idParts
						for i := range p {
							switch bg {
							case 1:
								p[i] = idMax[i]
							case 2:
								p[i] = c.R.U64() % (idMax[i] + 1)
							}
						}
						p[field] = x
						c17Check(c, p, fmt.Sprintf("field%d/bg%d", field, bg))
					}
				},
			},
			{
				Name: "random", N: q(300000, 300000000),
				Run: func(c *fw.Case) {
					var p idParts
					for i := range p {
						p[i] = c.R.U64() % (idMax[i] + 1)
						if c.R.Chance(1, 5) {
							p[i] = []uint64{0, 1, idMax[i] - 1, idMax[i]}[c.R.Intn(4)]
						}
					}
					c17Check(c, p, "tuple")
					id := c.R.U64()
					switch c.R.Intn(6) {
					case 0:
						id = 1 << uint(c.R.Intn(64))
					case 1:
						id = ^(uint64(1) << uint(c.R.Intn(64)))
					case 2:
						id = uint64(c.R.Pick(1, 2, 0xffff, 0x10000))
					}
					c17ID(c, id, "id")
					c.Sample(2, map[string]any{"fields": p, "id": fmt.Sprintf("%#016x", refCombine(p)), "string": cmpp.MsgID2String(refCombine(p))})
				},
			},
		},
	})
}
