package props

import (
	"fmt"

	"github.com/hujm2023/go-sms-protocol/cmpp"

	"verifmon/fw"
)

// C17 — CMPP message id: specified bit layout, lossless split/compose/string form.

type idParts [7]uint64 // month day hour minute second gateway sequence

var idMax = idParts{15, 31, 31, 63, 63, 1<<22 - 1, 65535}
var idShift = [7]uint{60, 55, 50, 44, 38, 16, 0} // CMPP: bit64~61 month, 60~56 day, 55~51 hour, 50~45 minute, 44~39 second, 38~17 gateway, 16~1 sequence

func refCombine(p idParts) uint64 {
	var id uint64
	for i := range p {
		id |= p[i] << idShift[i]
	}
	return id
}

func c17Check(c *fw.Case, p idParts, class string) {
	c.Evals(1)
	want := refCombine(p)
	var got uint64
	var back idParts
	if pan, val, st := fw.Try(func() {
		got = cmpp.CombineMsgID(p[0], p[1], p[2], p[3], p[4], p[5], p[6])
		back[0], back[1], back[2], back[3], back[4], back[5], back[6] = cmpp.SplitMsgID(got)
	}); pan {
		c.Failf("msgid-"+fw.PanicSig(val, st), "%v: %v\n%s", p, val, st)
		return
	}
	if got != want {
		c.Failf("combine-layout", "CombineMsgID%v = %#016x, the CMPP bit layout gives %#016x", p, got, want)
	}
	if back != p {
		c.Failf("split-of-combine", "SplitMsgID(CombineMsgID%v) = %v", p, back)
	}
	c17ID(c, want, class)
}

func c17ID(c *fw.Case, id uint64, class string) {
	c.Evals(1)
	var re uint64
	var s string
	var parsed uint64
	if pan, val, st := fw.Try(func() {
		a, b, d, e, f, g, h := cmpp.SplitMsgID(id)
		re = cmpp.CombineMsgID(a, b, d, e, f, g, h)
		s = cmpp.MsgID2String(id)
		parsed = cmpp.MsgIDString2Uint64(s)
	}); pan {
		c.Failf("msgid-"+fw.PanicSig(val, st), "id %#x: %v\n%s", id, val, st)
		return
	}
	if re != id {
		c.Failf("combine-of-split", "CombineMsgID(SplitMsgID(%#016x)) = %#016x", id, re)
	}
	if id != 0 {
		if len(s) != 22 {
			c.Failf("string-form-length", "MsgID2String(%#016x) = %q (%d characters, expected 22 decimal digits)", id, s, len(s))
		}
		for i := 0; i < len(s); i++ {
			if s[i] < '0' || s[i] > '9' {
				c.Failf("string-form-digits", "MsgID2String(%#016x) = %q contains a non-digit", id, s)
				break
			}
		}
		if parsed != id {
			c.Failf("string-roundtrip", "MsgIDString2Uint64(MsgID2String(%#016x) = %q) = %#016x", id, s, parsed)
		}
	}
	c.Cover("msgid/" + class)
}

// c17Sequence: conversions interleaved the way a gateway does them — strings kept while other ids are converted,
// unparsable strings in between — every kept string and every parse judged against the reference.
func c17Sequence(c *fw.Case) {
	r := c.R
	type kept struct {
		id   uint64
		s    string
		copy string // the characters of s at the moment it was returned, in memory of our own
	}
	var held []kept
	junk := []string{"", "abc", "12", "083010560000003003276", "08301056000000300327689", "0830105600000030032x68", "-830105600000030032768", " 830105600000030032768", "99999999999999999999999999"}
	n := r.Range(3, 24)
	pat := ""
	for i := 0; i < n; i++ {
		c.Evals(1)
		op := r.Intn(4)
		if len(held) == 0 {
			op = 0
		}
		switch op {
		case 0, 1: // convert a new id and keep the string
			var p idParts
			for k := range p {
				p[k] = r.U64() % (idMax[k] + 1)
			}
			if r.Chance(1, 4) { // the last values before a carry into the next field
				p[6] = uint64(r.Pick(65535, 65534, 65535, 9999, 99999%65536))
				if r.Chance(1, 4) {
					p[5] = idMax[5]
				}
			}
			id := refCombine(p)
			if r.Chance(1, 12) {
				id = 0
			}
			if len(held) > 0 && r.Chance(1, 3) {
				// ids are issued in order: the successor (or a near neighbour) of the one converted last
				id = held[len(held)-1].id + uint64(r.Pick(1, 1, 1, 2, 10, 65536, 1<<16-1))
				if r.Chance(1, 8) {
					id = held[len(held)-1].id - 1
				}
			}
			var s string
			if pan, val, st := fw.Try(func() { s = cmpp.MsgID2String(id) }); pan {
				c.Failf("msgid-"+fw.PanicSig(val, st), "MsgID2String(%#x): %v\n%s", id, val, st)
				return
			}
			held = append(held, kept{id, s, string(append([]byte(nil), s...))})
			pat += "S"
		case 2: // parse a string kept from an earlier conversion
			k := held[r.Intn(len(held))]
			var got uint64
			if pan, val, st := fw.Try(func() { got = cmpp.MsgIDString2Uint64(k.s) }); pan {
				c.Failf("msgid-"+fw.PanicSig(val, st), "MsgIDString2Uint64(%q): %v\n%s", k.s, val, st)
				return
			}
			if k.s != k.copy {
				c.Failf("string-changed-by-later-call", "the string MsgID2String returned for %#016x read %q when returned and reads %q after later conversions (call %d)", k.id, k.copy, k.s, i)
				return
			}
			if k.id != 0 && got != k.id {
				c.Failf("string-roundtrip/sequence", "MsgIDString2Uint64(%q) = %#016x, the string was produced from %#016x (call %d of a sequence: %s)", k.s, got, k.id, i, pat)
				return
			}
			pat += "P"
		default: // a string that is not an id: must not panic, and must not disturb what follows
			j := junk[r.Intn(len(junk))]
			if pan, val, st := fw.Try(func() { cmpp.MsgIDString2Uint64(j) }); pan {
				c.Failf("msgid-"+fw.PanicSig(val, st), "MsgIDString2Uint64(%q): %v\n%s", j, val, st)
				return
			}
			pat += "J"
		}
	}
	for _, k := range held {
		if k.s != k.copy {
			c.Failf("string-changed-by-later-call", "the string MsgID2String returned for %#016x read %q when returned and reads %q at the end of the sequence %s", k.id, k.copy, k.s, pat)
			return
		}
	}
	if len(pat) > 4 {
		pat = pat[:4]
	}
	c.Cover("sequence/" + pat)
}

func init() {
	fw.Register(&fw.Prop{
		ID:        "C17",
		Technique: "runtime monitor: bit-layout reference (shifts taken from the CMPP text) + round-trip oracles, each field enumerated over its full range",
		Rule: "each of the seven fields over its full range (gateway: all 2^22 values) with the other fields at all-zero, all-max and random (exhaustive per field), random tuples, boundary bit patterns and random 64-bit ids; call sequences of 3..24 conversions in which strings are kept while other ids are converted and unparsable strings are parsed in between, every kept string re-read at the end; " +
			"distinct_nontrivial = distinct (field swept, background class) / pattern classes judged",
		Assumptions: []string{"bit positions from CMPP 2.0/3.0 §8.3 Msg_Id (bit64~61 month … bit16~1 sequence)"},
		Stages: []*fw.Stage{
			{
				Name: "fieldsweep", Exhaustive: "every field over its full range x background {all-0, all-max, random}: month 16, day 32, hour 32, minute 64, second 64, gateway 2^22, sequence 2^16 values",
				N: func(fw.Tier) uint64 { return 7 * 3 * 64 },
				Run: func(c *fw.Case) {
					field := int(c.Idx % 7)
					bg := int(c.Idx / 7 % 3)
					chunk := int(c.Idx / 21) // 0..63: the field range is cut into 64 chunks
					n := idMax[field] + 1
					lo, hi := n*uint64(chunk)/64, n*uint64(chunk+1)/64
					for x := lo; x < hi; x++ {
						var p idParts
						for i := range p {
							switch bg {
							case 1:
								p[i] = idMax[i]
							case 2:
								p[i] = c.R.U64() % (idMax[i] + 1)
							}
						}
						p[field] = x
						c17Check(c, p, fmt.Sprintf("field%d/bg%d", field, bg))
					}
				},
			},
			{
				Name: "random", N: q(300000, 300000000),
				Run: func(c *fw.Case) {
					var p idParts
					for i := range p {
						p[i] = c.R.U64() % (idMax[i] + 1)
						if c.R.Chance(1, 5) {
							p[i] = []uint64{0, 1, idMax[i] - 1, idMax[i]}[c.R.Intn(4)]
						}
					}
					c17Check(c, p, "tuple")
					id := c.R.U64()
					switch c.R.Intn(6) {
					case 0:
						id = 1 << uint(c.R.Intn(64))
					case 1:
						id = ^(uint64(1) << uint(c.R.Intn(64)))
					case 2:
						id = uint64(c.R.Pick(1, 2, 0xffff, 0x10000))
					}
					c17ID(c, id, "id")
					c.Echo("MsgID2String+MsgIDString2Uint64", func() string {
						s := cmpp.MsgID2String(id)
						return fmt.Sprintf("%s %#x %v", s, cmpp.MsgIDString2Uint64(s), fmt.Sprint(cmpp.SplitMsgID(id)))
					})
					c.Sample(2, map[string]any{"fields": p, "id": fmt.Sprintf("%#016x", refCombine(p)), "string": cmpp.MsgID2String(refCombine(p))})
				},
			},
			{Name: "sequence", N: q(60000, 60000000), Run: c17Sequence},
		},
	})
}
