package props

import (
	"bytes"
	"encoding/binary"
	"fmt"

	"github.com/hujm2023/go-sms-protocol/packet"

	"verifmon/fw"
)

// C20 — packet reader/writer primitives are mutually inverse with sticky errors.

type wop struct {
	kind string // u8 u16 u32 u64 bytes string cstring fixed
	u    uint64
	b    []byte
	n    int // fixed width
}

func (o wop) String() string {
	switch o.kind {
	case "u8", "u16", "u32", "u64":
		return fmt.Sprintf("%s(%d)", o.kind, o.u)
	case "fixed":
		return fmt.Sprintf("fixed(%q,%d)", o.b, o.n)
	}
	return fmt.Sprintf("%s(%q)", o.kind, o.b)
}

func genWop(r *fw.Rng, allowFail bool) wop {
	kinds := []string{"u8", "u16", "u32", "u64", "bytes", "string", "cstring", "fixed"}
	o := wop{kind: kinds[r.Intn(len(kinds))]}
	switch o.kind {
	case "u8":
		o.u = r.U64() & 0xff
	case "u16":
		o.u = r.U64() & 0xffff
	case "u32":
		o.u = r.U64() & 0xffffffff
	case "u64":
		o.u = r.U64()
	case "bytes", "string":
		o.b = r.Bytes(r.Range(0, 20))
		if r.Chance(1, 16) {
			o.b = r.Bytes(r.Pick(63, 64, 65, 255, 256, 257, 1000, 4095, 4096, 4097))
		}
	case "cstring":
		o.b = nonNul(r, r.Range(0, 20))
		if r.Chance(1, 16) { // C-strings have no width limit of their own
			o.b = nonNul(r, r.Pick(63, 64, 65, 254, 255, 256, 257, 300, 1000, 4095, 4096, 4097, 5000))
		}
	case "fixed":
		o.n = r.Range(0, 24)
		if r.Chance(1, 6) {
			o.n = r.Pick(63, 64, 65, 67, 68, 100, 128, 129, 255, 256, 300, 1000)
		}
		o.b = nonNul(r, r.Range(0, o.n))
		if r.Chance(1, 3) {
			o.b = nonNul(r, r.Range(0, min(o.n, 3))) // mostly padding
		}
		if allowFail {
			o.b = nonNul(r, o.n+r.Range(1, 8)) // does not fit: the only way a write can fail
		}
	}
	return o
}

func nonNul(r *fw.Rng, n int) []byte {
	b := r.Bytes(n)
	for i := range b {
		if b[i] == 0 {
			b[i] = byte(1 + r.Intn(255))
		}
	}
	return b
}

func (o wop) apply(w *packet.Writer) {
	switch o.kind {
	case "u8":
		w.WriteUint8(uint8(o.u))
	case "u16":
		w.WriteUint16(uint16(o.u))
	case "u32":
		w.WriteUint32(uint32(o.u))
	case "u64":
		w.WriteUint64(o.u)
	case "bytes":
		w.WriteBytes(o.b)
	case "string":
		w.WriteString(string(o.b))
	case "cstring":
		w.WriteCString(string(o.b))
	case "fixed":
		w.WriteFixedLenString(string(o.b), o.n)
	}
}

// model: the octets this op adds; fails=true if it must fail.
func (o wop) model() (out []byte, fails bool) {
	switch o.kind {
	case "u8":
		return []byte{byte(o.u)}, false
	case "u16":
		return []byte{byte(o.u >> 8), byte(o.u)}, false
	case "u32":
		b := make([]byte, 4)
		binary.BigEndian.PutUint32(b, uint32(o.u))
		return b, false
	case "u64":
		b := make([]byte, 8)
		binary.BigEndian.PutUint64(b, o.u)
		return b, false
	case "bytes", "string":
		return o.b, false
	case "cstring":
		return append(append([]byte(nil), o.b...), 0), false
	default:
		if len(o.b) > o.n {
			return nil, true
		}
		b := make([]byte, o.n)
		copy(b, o.b)
		return b, false
	}
}

func c20Writer(c *fw.Case) {
	r := c.R
	n := r.Range(0, 60)
	if r.Chance(1, 10) {
		n = r.Range(60, 200)
	}
	failAt := -1
	if r.Chance(2, 3) && n > 0 {
		failAt = r.Intn(n)
	}
	w := packet.NewPacketWriter()
	defer func() { fw.Try(func() { w.Release() }) }()
	var model []byte
	failed := false
	firstErr := ""
	var trace []string
	for i := 0; i < n; i++ {
		o := genWop(r, i == failAt || (failed && r.Chance(1, 5)))
		trace = append(trace, o.String())
		if len(trace) > 12 {
			trace = trace[len(trace)-12:]
		}
		var pan bool
		var val any
		var st string
		pan, val, st = fw.Try(func() { o.apply(w) })
		c.Evals(1)
		if pan {
			c.Failf("writer-"+fw.PanicSig(val, st), "op %d %s: %v\n%s", i, o, val, st)
			return
		}
		add, fails := o.model()
		if !failed {
			if fails {
				failed = true
			} else {
				model = append(model, add...)
			}
		}
		ctx := func() string {
			return fmt.Sprintf("after op %d of %d (last ops %v), model has %d octets, failed=%v", i, n, trace, len(model), failed)
		}
		err := w.Error()
		if failed {
			if err == nil {
				c.Failf("writer-error-not-sticky", "Error() is nil although an earlier write failed; %s", ctx())
				return
			}
			if firstErr == "" {
				firstErr = err.Error()
			} else if err.Error() != firstErr {
				c.Failf("writer-first-error-replaced", "Error() changed from %q to %q; %s", firstErr, err.Error(), ctx())
			}
			if w.Written() != len(model) {
				c.Failf("writer-written-after-failure/"+o.kind, "Written()=%d but only %d octets were written before the first failure; %s", w.Written(), len(model), ctx())
				return
			}
			if b, e := w.Bytes(); b != nil || e == nil {
				c.Failf("writer-bytes-after-failure", "Bytes() = (%d octets, %v) after a failure; %s", len(b), e, ctx())
			}
			if b, e := w.BytesWithLength(); b != nil || e == nil {
				c.Failf("writer-bytes-after-failure", "BytesWithLength() = (%d octets, %v) after a failure; %s", len(b), e, ctx())
			}
			if w.Len() != 0 {
				c.Failf("writer-len-after-failure", "Len()=%d after a failure (documented: 0); %s", w.Len(), ctx())
			}
			continue
		}
		if err != nil {
			c.Failf("writer-spurious-error", "Error()=%v although every write fits; %s", err, ctx())
			return
		}
		if w.Written() != len(model) || w.Len() != len(model) {
			c.Failf("writer-count/"+o.kind, "Written()=%d Len()=%d, model %d octets; %s", w.Written(), w.Len(), len(model), ctx())
			return
		}
		b, e := w.Bytes()
		if e != nil || !bytes.Equal(b, model) {
			c.Failf("writer-bytes/"+o.kind, "Bytes()=(%s,%v), model %s; %s", hx(b), e, hx(model), ctx())
			return
		}
		bl, e := w.BytesWithLength()
		want := make([]byte, 4+len(model))
		binary.BigEndian.PutUint32(want, uint32(len(model)+4))
		copy(want[4:], model)
		if e != nil || !bytes.Equal(bl, want) {
			c.Failf("writer-bytes-with-length/"+o.kind, "BytesWithLength()=(%s,%v), model %s; %s", hx(bl), e, hx(want), ctx())
			return
		}
	}
	c.Cover(fmt.Sprintf("writer/len%d/fail=%v", bucket(n), failAt >= 0))
	c.Sample(2, map[string]any{"ops": n, "fail_injected_at": failAt, "last_ops": trace, "model_octets": len(model)})
}

// read side: the mirrored read sequence returns the written values; on truncation the first failing
// read and all later ones return zero values and Error() keeps the first failure.
func c20Reader(c *fw.Case) {
	r := c.R
	n := r.Range(0, 60)
	var ops []wop
	var img []byte
	for i := 0; i < n; i++ {
		o := genWop(r, false)
		if o.kind == "string" {
			o.kind = "bytes"
		}
		add, _ := o.model()
		ops = append(ops, o)
		img = append(img, add...)
	}
	cut := len(img)
	if r.Chance(3, 4) && len(img) > 0 {
		cut = r.Intn(len(img) + 1)
	}
	in := append([]byte(nil), img[:cut]...)
	rd := packet.NewPacketReader(in)
	// every value handed out stays what it was while the reader goes on: (description, live value, expected)
	type heldVal struct {
		what string
		b    []byte
		s    *string
		want string
	}
	var held []heldVal
	recheck := func(when string) bool {
		for _, h := range held {
			got := ""
			if h.s != nil {
				got = *h.s
			} else {
				got = string(h.b)
			}
			if got != h.want {
				c.Failf("reader-result-changed-by-later-read", "%s: the value returned by %s read %s when it was returned and reads %s %s", "reader", h.what, hx([]byte(h.want)), hx([]byte(got)), when)
				return false
			}
		}
		return true
	}
	pos := 0
	failed := false
	firstErr := ""
	remainingAtFailure := 0
	for i, o := range ops {
		add, _ := o.model()
		fits := !failed && pos+len(add) <= cut
		if o.kind == "cstring" && !failed {
			fits = bytes.IndexByte(img[pos:cut], 0) >= 0 && pos+len(add) <= cut
		}
		var gu uint64
		var gb []byte
		var gs string
		trimMode := r.Bool()
		pan, val, st := fw.Try(func() {
			switch o.kind {
			case "u8":
				gu = uint64(rd.ReadUint8())
			case "u16":
				gu = uint64(rd.ReadUint16())
			case "u32":
				gu = uint64(rd.ReadUint32())
			case "u64":
				gu = rd.ReadUint64()
			case "bytes":
				if trimMode {
					gb = rd.ReadNBytes(len(o.b))
				} else {
					gb = make([]byte, len(o.b))
					rd.ReadBytes(gb)
				}
			case "cstring":
				gs = rd.ReadCString()
			case "fixed":
				if trimMode {
					gs = rd.ReadCStringN(o.n)
				} else {
					gs = rd.ReadCStringNWithoutTrim(o.n)
				}
			}
		})
		c.Evals(1)
		ctx := func() string {
			return fmt.Sprintf("read %d of %d (%s), input %d of %d octets, cursor %d, failed-before=%v", i, n, o, cut, len(img), pos, failed)
		}
		if pan {
			c.Failf("reader-"+fw.PanicSig(val, st), "%s: %v\n%s", ctx(), val, st)
			return
		}
		err := rd.Error()
		empty := (o.kind == "bytes" && len(o.b) == 0) || (o.kind == "fixed" && o.n == 0)
		if fits || (empty && !failed) {
			if err != nil {
				c.Failf("reader-spurious-error/"+o.kind, "%s: Error()=%v although the value is completely present", ctx(), err)
				return
			}
			ok := true
			switch o.kind {
			case "u8", "u16", "u32", "u64":
				ok = gu == o.u
			case "bytes":
				ok = bytes.Equal(gb, o.b) || (len(o.b) == 0 && len(gb) == 0)
			case "cstring":
				ok = gs == string(o.b)
			case "fixed":
				if trimMode {
					ok = gs == string(o.b)
				} else {
					ok = gs == string(add)
				}
			}
			if !ok {
				c.Failf("reader-not-inverse/"+o.kind, "%s: read back u=%d b=%s s=%q", ctx(), gu, hx(gb), gs)
				return
			}
			switch o.kind {
			case "bytes":
				if trimMode && len(gb) > 0 {
					held = append(held, heldVal{what: fmt.Sprintf("ReadNBytes(%d) (read %d)", len(o.b), i), b: gb, want: string(gb)})
				}
			case "cstring", "fixed":
				if len(gs) > 0 {
					g := gs
					held = append(held, heldVal{what: fmt.Sprintf("%s read %d", o.kind, i), s: &g, want: string(append([]byte(nil), gs...))})
				}
			}
			if len(held) > 0 && i%8 == 7 && !recheck(fmt.Sprintf("after read %d", i)) {
				return
			}
			pos += len(add)
			continue
		}
		// must fail (first failure) or stay failed
		if err == nil {
			c.Failf("reader-overrun-accepted/"+o.kind, "%s: the value is not completely present but Error() is nil (returned u=%d b=%s s=%q)", ctx(), gu, hx(gb), gs)
			return
		}
		failedBefore := failed
		if !failed {
			failed = true
			firstErr = err.Error()
		} else if err.Error() != firstErr {
			c.Failf("reader-first-error-replaced", "%s: Error() changed from %q to %q", ctx(), firstErr, err.Error())
		}
		zero := gu == 0 && gs == ""
		if o.kind == "bytes" {
			if trimMode {
				zero = zero && gb == nil
			} else if failedBefore {
				// ReadBytes fills a caller buffer; on a reader that has already failed it must not touch it
				// (the read that fails first may have copied the octets that were still there)
				zero = zero && bytes.Equal(gb, make([]byte, len(gb)))
			}
		}
		if failedBefore && rd.Remaining() != remainingAtFailure {
			c.Failf("reader-consumes-after-failure/"+o.kind, "%s: Remaining() went from %d to %d on a reader that had already failed", ctx(), remainingAtFailure, rd.Remaining())
			return
		}
		remainingAtFailure = rd.Remaining()
		if r.Chance(1, 4) {
			// on a reader that has failed, ANY later operation keeps the first error — also one whose own argument
			// is unusable (a length that went negative in the caller's arithmetic)
			neg := -1 - r.Intn(1<<20)
			var nb []byte
			var ns string
			pan, val, st := fw.Try(func() {
				switch r.Intn(3) {
				case 0:
					nb = rd.ReadNBytes(neg)
				case 1:
					ns = rd.ReadCStringN(neg)
				default:
					ns = rd.ReadCStringNWithoutTrim(neg)
				}
			})
			c.Evals(1)
			if pan {
				c.Failf("reader-"+fw.PanicSig(val, st), "a read of length %d on a failed reader: %v\n%s", neg, val, st)
				return
			}
			if e := rd.Error(); e == nil || e.Error() != firstErr {
				c.Failf("reader-first-error-replaced", "%s: a read of length %d on the failed reader changed Error() from %q to %v", ctx(), neg, firstErr, e)
				return
			}
			if nb != nil || ns != "" || rd.Remaining() != remainingAtFailure {
				c.Failf("reader-nonzero-after-failure/negative-length", "%s: a read of length %d on the failed reader returned b=%s s=%q, Remaining %d -> %d", ctx(), neg, hx(nb), ns, remainingAtFailure, rd.Remaining())
				return
			}
		}
		if !zero {
			c.Failf("reader-nonzero-after-failure/"+o.kind, "%s: a failed read returned u=%d b=%s s=%q instead of zero values", ctx(), gu, hx(gb), gs)
			return
		}
	}
	if !recheck("after the last read") {
		return
	}
	if !failed && rd.Remaining() != cut-pos {
		c.Failf("reader-remaining", "Remaining()=%d, model %d", rd.Remaining(), cut-pos)
	}
	c.Cover(fmt.Sprintf("reader/len%d/truncated=%v", bucket(n), cut < len(img)))
}

func init() {
	fw.Register(&fw.Prop{
		ID:        "C20",
		Technique: "runtime monitor: shadow model of packet.Writer/Reader (expected octet string, first-error state) compared after every primitive operation, failure injected at every position",
		Rule: "op sequences of length 0..200 over all eight write primitives with arbitrary arguments; an oversize fixed string (the only failing write) injected at a PRNG-chosen position and again later; the mirrored read sequence over the full image and over every truncation class; C-strings and byte runs up to 5000 octets (widths around 64, 256 and 4096); every value a read returned is compared again after later reads (a result must not change under the caller); " +
			"distinct_nontrivial = distinct (side, length bucket, failure injected / truncated) classes",
		Assumptions: []string{
			"a write primitive can only fail through WriteFixedLenString with a value longer than its width; a read fails when its value is not completely present",
			"C-strings and fixed-width strings are NUL-free (a C-octet string cannot contain its own terminator); WriteBytes/WriteString arguments are arbitrary octets",
		},
		Stages: []*fw.Stage{
			{Name: "writer", N: q(60000, 40000000), Run: c20Writer},
			{Name: "reader", N: q(60000, 40000000), Run: c20Reader},
		},
	})
}
