package props

import (
	"bytes"
	"context"
	"fmt"
	"runtime"
	"sync"
	"sort"

	protocol "github.com/hujm2023/go-sms-protocol"
	"github.com/hujm2023/go-sms-protocol/datacoding"

	"verifmon/fw"
)

// C09 — batch encoder: cheapest usable coding, deterministically.

var smppPrio = map[int]int{8: 0, 0: 1, 3: 2, 1: 3, 99: 4} // UCS2 < GSM7-unpacked < Latin1 < ASCII < GSM7-packed
var cmppPrio = map[int]int{9: 0, 8: 1, 15: 2, 0: 3}       // UCS2-no-sign < UCS2 < GBK < ASCII

type batchReq struct {
	proto   string // CMPP | SMPP
	content string
	cands   []int
	origin  int // -1000 = none
	ref     byte
}

func (b *batchReq) String() string {
	t := b.content
	if len(t) > 200 {
		t = fmt.Sprintf("%q…(%d octets)", t[:200], len(t))
	} else {
		t = fmt.Sprintf("%q", t)
	}
	return fmt.Sprintf("protocol=%s candidates=%v origin=%d ref=%d content=%s (utf8 hex %s)", b.proto, b.cands, b.origin, b.ref, t, hx([]byte(b.content)))
}

func mkCoding(proto string, n int) datacoding.ProtocolDataCoding {
	if proto == "CMPP" {
		return datacoding.CMPPDataCoding(n)
	}
	return datacoding.SMPPDataCoding(n)
}

type batchOut struct {
	parts  [][]byte
	coding int // -1 unknown
	err    error
	psig   string
	ptext  string
}

func runBuild(c *fw.Case, b *batchReq, order []int) *batchOut {
	o := &batchOut{coding: -1}
	list := make([]datacoding.ProtocolDataCoding, len(order))
	for i, n := range order {
		list[i] = mkCoding(b.proto, n)
	}
	enc := protocol.NewBatchDataCodingEncoder().Protocol(protocol.Protocol(b.proto)).Content(b.content, b.ref).DataCodings(list)
	if b.origin != -1000 {
		enc = enc.OriginDataCoding(mkCoding(b.proto, b.origin))
	}
	arm(c, 8*len(b.content)+8192)
	p, val, st := fw.Try(func() {
		var f datacoding.ProtocolDataCoding
		o.parts, f, o.err = enc.Build(context.Background())
		switch x := f.(type) {
		case datacoding.CMPPDataCoding:
			o.coding = int(x)
		case datacoding.SMPPDataCoding:
			o.coding = int(x)
		}
	})
	disarm(c)
	c.Evals(1)
	if p {
		o.psig, o.ptext = fw.PanicSig(val, st), fmt.Sprintf("panic: %v\n%s", val, st)
	}
	return o
}

func sameOut(a, b *batchOut) bool {
	if (a.err == nil) != (b.err == nil) || a.coding != b.coding || len(a.parts) != len(b.parts) || a.psig != b.psig {
		return false
	}
	for i := range a.parts {
		if !bytes.Equal(a.parts[i], b.parts[i]) {
			return false
		}
	}
	return true
}

// refWinner computes the reference answer: (coding, parts, usable) or fallback.
func refWinner(c *fw.Case, b *batchReq) (coding int, nparts int, anyUsable bool, table string) {
	set := map[int]bool{}
	for _, n := range b.cands {
		set[n] = true
	}
	if b.origin != -1000 {
		if _, ok := kindOf(b.proto, b.origin); ok {
			set[b.origin] = true
		}
	}
	type cand struct{ n, parts, prio int }
	var usable []cand
	prio := smppPrio
	entry := "SMPP"
	if b.proto == "CMPP" {
		prio, entry = cmppPrio, "CMPP"
	}
	for n := range set {
		k, ok := kindOf(b.proto, n)
		if !ok {
			continue
		}
		if _, can := unitsOf(k, b.content); !can {
			continue
		}
		// parts the user would have to send with this coding: the library's single-coding entry point
		o := observeSplit(c, entry, b.content, n, b.ref)
		if o.panicSig != "" || o.err != nil || o.repNum != n {
			continue
		}
		usable = append(usable, cand{n, len(o.parts), prio[n]})
	}
	sort.Slice(usable, func(i, j int) bool {
		if usable[i].parts != usable[j].parts {
			return usable[i].parts < usable[j].parts
		}
		return usable[i].prio < usable[j].prio
	})
	for _, u := range usable {
		table += fmt.Sprintf("[coding %d: %d parts, priority rank %d] ", u.n, u.parts, u.prio)
	}
	if len(usable) == 0 {
		o := observeSplit(c, entry, b.content, 8, b.ref)
		if o.err != nil || o.panicSig != "" {
			return 8, 0, false, "no candidate usable; UCS-2 fallback itself fails: " + fmt.Sprint(o.err)
		}
		return 8, len(o.parts), false, "no candidate usable -> UCS-2 fallback"
	}
	return usable[0].n, usable[0].parts, true, table
}

func kindOf(proto string, n int) (codingKind, bool) {
	if proto == "CMPP" {
		return cmppKind(n)
	}
	return smppKind(n)
}

func genBatchReq(r *fw.Rng) *batchReq {
	b := &batchReq{origin: -1000}
	var valid, invalid []int
	if r.Bool() {
		b.proto, valid, invalid = "CMPP", []int{0, 8, 9, 15}, []int{1, 3, 4, 25, 200, -1, 256, 264, 265, 271, -248, -241, 65536, 65551, 1 << 24}
	} else {
		b.proto, valid, invalid = "SMPP", []int{0, 1, 3, 8, 99}, []int{2, 4, 9, 255, -1, 256, 257, 259, 264, 355, -248, -157, 65536, 65635, 1<<24 + 8}
	}
	// non-empty subset
	mask := 1 + r.Intn(1<<uint(len(valid))-1)
	for i, n := range valid {
		if mask>>uint(i)&1 == 1 {
			b.cands = append(b.cands, n)
		}
	}
	if r.Chance(1, 4) {
		b.cands = append(b.cands, invalid[r.Intn(len(invalid))])
	}
	if r.Chance(1, 12) { // only invalid candidates
		b.cands = []int{invalid[r.Intn(len(invalid))]}
	}
	switch r.Intn(4) {
	case 0:
		b.origin = valid[r.Intn(len(valid))]
	case 1:
		b.origin = invalid[r.Intn(len(invalid))]
	}
	// content: pick the kind so that ties and differences in part counts both occur
	kinds := []codingKind{kASCII, kLatin1, kUCS2, kGB, kGSMUnpacked, kGSMPacked}
	kind := kinds[r.Intn(len(kinds))]
	if threshText != "" {
		b.content = threshText
		b.ref = byte(r.Pick(0, 1, 107, 255))
		return b
	}
	if edgeUnits > 0 && edgeMulti {
		// only multi-unit characters: blind cutting needs <= 255 parts where whole-character cutting needs more
		var ch rune
		u, per := 2, 153
		switch edgeKind {
		case kUCS2:
			ch, u, per = 0x1f600, 4, 134
		case kGB:
			// four octets in GB18030: an astral character (four in UCS-2 as well) or a BMP character outside the
			// two-octet GBK table (Thai, the replacement character: two in UCS-2, so UCS-2 still fits where GBK does not)
			ch, u, per = rune(r.Pick(0x1f600, 0x0e01, 0x0e01, 0xfffd, 0x0627)), 4, 134
		default:
			ch = '['
		}
		lo, hi := 255*(per/u), 255*per/u
		k := []int{lo - 1, lo, lo + 1, (lo + hi) / 2, hi - 1, hi, hi + 1}[r.Intn(7)]
		rs := make([]rune, k)
		for i := range rs {
			rs[i] = ch
		}
		b.content = string(rs)
		b.ref = byte(r.Pick(0, 1, 107, 255))
		return b
	}
	if edgeUnits > 0 {
		b.content = exactUnits(r, edgeKind, edgeUnits)
		b.ref = byte(r.Pick(0, 1, 107, 255))
		return b
	}
	if r.Chance(1, 5) {
		b.content, _ = randomText(r, 400)
	} else {
		b.content, _ = boundaryText(r, kind)
	}
	if len(b.content) > 6000 && r.Chance(5, 6) {
		b.content = b.content[:validPrefix(b.content, 1200)]
	}
	if b.content == "" {
		b.content = "x"
	}
	b.ref = byte(r.Pick(0, 1, 107, 255))
	return b
}

// edgeKind/edgeUnits: when set (edge255 stage; one goroutine per worker) genBatchReq builds a content of
// exactly that many capacity units under that coding.
// threshText: when set (threshold stage) genBatchReq uses this content.
var threshText string

var (
	edgeKind  codingKind
	edgeUnits int
	edgeMulti bool
)

// exactUnits builds a text whose encoding under kind has exactly n units, from single-unit characters
// (two-octet BMP characters for UCS-2) that every coding of the same protocol family can also carry or not.
func exactUnits(r *fw.Rng, kind codingKind, n int) string {
	var alphabet []rune
	per := 1
	switch kind {
	case kASCII, kGB:
		alphabet = []rune("abcdefgh 0123")
	case kLatin1:
		alphabet = []rune("abcé ñü1")
	case kUCS2:
		alphabet, per = []rune("中文a短信é"), 2
	default:
		alphabet = []rune("abc 123@")
	}
	rs := make([]rune, 0, n/per)
	for u := 0; u+per <= n; u += per {
		rs = append(rs, alphabet[r.Intn(len(alphabet))])
	}
	return string(rs)
}

func validPrefix(s string, n int) int {
	if n > len(s) {
		n = len(s)
	}
	for n > 0 && n < len(s) && s[n]&0xc0 == 0x80 {
		n--
	}
	return n
}

func c09Case(c *fw.Case, reps int, perturb bool) {
	r := c.R
	b := genBatchReq(r)
	if perturb && c.W.Hooks != nil {
		c.W.Hooks.YieldMode = 1
		defer func() { c.W.Hooks.YieldMode = 0 }()
	}
	want, wantParts, usable, table := refWinner(c, b)
	first := runBuild(c, b, b.cands)
	ctx := func() string { return b.String() + "\nreference ranking: " + table }
	if first.psig != "" {
		c.Failf("build-"+first.psig+"/"+b.proto, "%s\n%s", ctx(), first.ptext)
		return
	}
	fallbackFails := !usable && wantParts == 0
	switch {
	case first.err != nil && !fallbackFails:
		c.Failf("build-error/"+b.proto, "Build failed (%v) although a coding can represent the content\n%s", first.err, ctx())
	case first.err == nil && fallbackFails:
		c.Failf("build-accepted-unrepresentable/"+b.proto, "Build succeeded with coding %d although no candidate and not even UCS-2 can carry the content\n%s", first.coding, ctx())
	case first.err == nil:
		if first.coding != want {
			kind := "wrong-winner"
			if !usable {
				kind = "wrong-fallback"
			}
			c.Failf(kind+"/"+b.proto, "Build chose coding %d (%d parts); the reference winner is %d (%d parts)\n%s", first.coding, len(first.parts), want, wantParts, ctx())
		} else if len(first.parts) != wantParts {
			c.Failf("winner-part-count/"+b.proto, "Build returned %d parts for coding %d; the single-coding entry point needs %d\n%s", len(first.parts), first.coding, wantParts, ctx())
		}
		// returned parts decode to the content under the returned coding
		o := &splitObs{entry: "Build-" + b.proto, text: b.content, reqNum: first.coding, refByte: b.ref, parts: first.parts, repNum: first.coding}
		o.repKind, o.repKnown = kindOf(b.proto, first.coding)
		if o.repKnown {
			if _, can := unitsOf(o.repKind, b.content); can {
				judgeC06(c, o)
			} else {
				c.Failf("winner-cannot-represent/"+b.proto, "returned coding %d cannot represent the content\n%s", first.coding, ctx())
			}
		}
	}
	// ... and of nothing that was asked before or after: the same request again once the next case has run
	c.Echo("Build/"+b.proto, func() string {
		list := make([]datacoding.ProtocolDataCoding, len(b.cands))
		for i, n := range b.cands {
			list[i] = mkCoding(b.proto, n)
		}
		enc := protocol.NewBatchDataCodingEncoder().Protocol(protocol.Protocol(b.proto)).Content(b.content, b.ref).DataCodings(list)
		if b.origin != -1000 {
			enc = enc.OriginDataCoding(mkCoding(b.proto, b.origin))
		}
		parts, f, err := enc.Build(context.Background())
		coding := -1
		if f != nil {
			coding = f.ToInt()
		}
		return fmt.Sprintf("coding=%d err=%v parts=%s", coding, err != nil, digestParts(parts, nil))
	})
	// determinism: shuffled order, duplicates, GOMAXPROCS, injected delays
	old := runtime.GOMAXPROCS(0)
	for k := 0; k < reps; k++ {
		order := make([]int, 0, len(b.cands)+2)
		for _, i := range r.Perm(len(b.cands)) {
			order = append(order, b.cands[i])
		}
		for d := r.Intn(3); d > 0; d-- {
			order = append(order, b.cands[r.Intn(len(b.cands))])
		}
		if perturb && k%4 == 3 {
			runtime.GOMAXPROCS(r.Pick(1, 2, 4, 16))
		}
		again := runBuild(c, b, order)
		if !sameOut(first, again) {
			c.Failf("nondeterministic/"+b.proto, "same request, candidate order %v: first run -> coding %d, %d parts, err=%v; this run -> coding %d, %d parts, err=%v (GOMAXPROCS=%d)\n%s",
				order, first.coding, len(first.parts), first.err, again.coding, len(again.parts), again.err, runtime.GOMAXPROCS(0), ctx())
			break
		}
	}
	runtime.GOMAXPROCS(old)
	if c.W.Hooks != nil && perturb {
		fp, ny := c.W.Hooks.Fingerprint()
		if ny > 0 && c.W.Res.Counters["fingerprints_recorded"] < 1500 {
			c.W.Res.Counters["fingerprints_recorded"]++
			c.Cover(fmt.Sprintf("%s/interleaving/%016x", c.Stage.Name, fp))
		}
		if errs := c.W.Hooks.TakeOwnErrs(); len(errs) > 0 {
			c.Failf("pool-ownership/"+b.proto, "%v\n%s", errs, ctx())
		}
	}
	outcome := "fallback"
	if usable {
		outcome = fmt.Sprintf("winner%d", want)
	}
	if first.err != nil {
		outcome = "error"
	}
	c.Cover(fmt.Sprintf("%s/%s/n%d/%s", c.Stage.Name, b.proto, len(b.cands), outcome))
	c.Sample(2, map[string]any{"request": b.String(), "reference_ranking": table, "returned_coding": first.coding, "parts": len(first.parts), "err": fmt.Sprint(first.err), "repetitions_identical": reps})
}

func init() {
	smppAll := []int{0, 1, 3, 8, 99}
	cmppAll := []int{0, 8, 9, 15}
	fw.Register(&fw.Prop{
		ID:        "C09",
		Technique: "runtime monitor: reference-winner oracle (min over (parts, documented priority)) + determinism monitor (each request repeated under shuffled candidate order, duplicates, GOMAXPROCS changes and Yield-hook delays, results byte-compared), concurrent stage under the Go race detector; comparator enumerated for strict-total-order laws",
		Rule: "requests = (protocol, content built around the part-count thresholds, non-empty subset of valid codings + invalid numbers, origin coding); each judged against the reference winner and repeated 8x (thorough 32x) for byte-identical results; " +
			"distinct_nontrivial = distinct (stage, protocol, candidate count, outcome) classes + distinct interleaving fingerprints of the Yield points inside Build's goroutines (capped at 1500 recorded per worker)",
		Assumptions: []string{
			"a candidate's part count is the number of parts the library's single-coding entry point produces for it (a separate code path from Build's own Run); priority ranks transcribed from the comments in codec_cmpp.go / codec_smpp.go",
			"candidates whose type does not belong to the selected protocol are outside the contract and never generated",
		},
		Stages: []*fw.Stage{
			{Name: "requests", N: q(40000, 3000000), Run: func(c *fw.Case) { c09Case(c, 8, false) }},
			{
				// contents that fill exactly 254/255/256 parts (+-1 unit) of one coding: the edge of the part-count limit,
				// where a candidate must stay usable at 255 parts and must be dropped at 256
				Name: "edge255", N: q(2880, 60000),
				Run: func(c *fw.Case) {
					kinds := []codingKind{kASCII, kLatin1, kUCS2, kGB, kGSMUnpacked, kGSMPacked}
					kind := kinds[c.Idx%6]
					parts := []int{254, 255, 256}[c.Idx/6%3]
					delta := []int{-1, 0, 0, 1}[c.Idx/18%4]
					edgeKind, edgeUnits = kind, parts*map[bool]int{true: 153, false: 134}[kind == kGSMUnpacked || kind == kGSMPacked]+delta
					edgeMulti = c.Idx/72%2 == 1 && (kind == kUCS2 || kind == kGB || kind == kGSMUnpacked || kind == kGSMPacked)
					defer func() { edgeUnits, edgeMulti = 0, false }()
					c09Case(c, 2, false)
				},
			},
			{
				// contents that sit exactly at the single-SMS threshold under ONE way of counting (characters, UTF-16 units,
				// GB18030 octets, septets, UTF-8 octets) and not under the others: any shortcut that counts the wrong thing
				// picks another winner here
				Name: "threshold", N: q(6000, 300000),
				Run: func(c *fw.Case) {
					r := c.R
					// a few wide characters, the rest ASCII filler up to the target under the chosen metric
					wide := []rune{0x1f600, 0x0e01, '中', '[', 'é', 0x20000, '€'}
					var rs []rune
					for i, k := 0, r.Range(0, 4); i < k; i++ {
						rs = append(rs, wide[r.Intn(len(wide))])
					}
					metric := r.Intn(5)
					target := []int{70, 70, 140, 160, 140}[metric] + r.Range(-1, 1)
					count := func(rs []rune) int {
						n := 0
						for _, x := range rs {
							switch metric {
							case 0: // characters
								n++
							case 1: // UTF-16 units
								if x > 0xffff {
									n += 2
								} else {
									n++
								}
							case 2: // GB18030 octets
								switch {
								case x < 0x80:
									n++
								case x == '中' || x == '€' || x == 'é':
									n += 2
								default:
									n += 4
								}
							case 3: // septets
								if x == '[' || x == '€' {
									n += 2
								} else {
									n++
								}
							default: // UTF-8 octets
								n += len(string(x))
							}
						}
						return n
					}
					for count(rs) < target {
						rs = append(rs, rune('a'+r.Intn(26)))
					}
					for i := len(rs) - 1; i > 0; i-- { // shuffle
						j := r.Intn(i + 1)
						rs[i], rs[j] = rs[j], rs[i]
					}
					threshText = string(rs)
					defer func() { threshText = "" }()
					c09Case(c, 2, false)
					c.Cover(fmt.Sprintf("threshold/metric%d", metric))
				},
			},
			{
				// one builder object reused for a series of requests, each changing ONE setter: every Build must equal
				// what a fresh builder returns for the same full request ("a function of the request alone")
				Name: "reusedbuilder", N: q(6000, 400000),
				Run: func(c *fw.Case) {
					r := c.R
					b := genBatchReq(r)
					if len(b.content) > 3000 {
						b.content = b.content[:validPrefix(b.content, 600)]
					}
					mkList := func(b *batchReq) []datacoding.ProtocolDataCoding {
						l := make([]datacoding.ProtocolDataCoding, len(b.cands))
						for i, n := range b.cands {
							l[i] = mkCoding(b.proto, n)
						}
						return l
					}
					build := func(enc *protocol.BatchDataCodingEncoder) *batchOut {
						o := &batchOut{coding: -1}
						if p, val, st := fw.Try(func() {
							var f datacoding.ProtocolDataCoding
							o.parts, f, o.err = enc.Build(context.Background())
							switch x := f.(type) {
							case datacoding.CMPPDataCoding:
								o.coding = int(x)
							case datacoding.SMPPDataCoding:
								o.coding = int(x)
							}
						}); p {
							o.psig, o.ptext = fw.PanicSig(val, st), fmt.Sprintf("%v\n%s", val, st)
						}
						c.Evals(1)
						return o
					}
					fresh := func(b *batchReq) *batchOut {
						enc := protocol.NewBatchDataCodingEncoder().Protocol(protocol.Protocol(b.proto)).Content(b.content, b.ref).DataCodings(mkList(b))
						if b.origin != -1000 {
							enc = enc.OriginDataCoding(mkCoding(b.proto, b.origin))
						}
						return build(enc)
					}
					reused := protocol.NewBatchDataCodingEncoder().Protocol(protocol.Protocol(b.proto)).Content(b.content, b.ref).DataCodings(mkList(b))
					if b.origin != -1000 {
						reused.OriginDataCoding(mkCoding(b.proto, b.origin))
					}
					steps := ""
					for step := 0; step < 6; step++ {
						got, want := build(reused), fresh(b)
						if !sameOut(got, want) {
							c.Failf("reused-builder-differs/"+b.proto, "after the setter sequence [%s] the reused builder returns coding %d, %d parts, first part %s, err=%v; a fresh builder for the same request returns coding %d, %d parts, first part %s, err=%v\n%s",
								steps, got.coding, len(got.parts), hx(firstPart(got.parts)), got.err, want.coding, len(want.parts), hx(firstPart(want.parts)), want.err, b.String())
							return
						}
						// change exactly one aspect of the request through its setter
						valid := []int{0, 1, 3, 8, 99}
						if b.proto == "CMPP" {
							valid = []int{0, 8, 9, 15}
						}
						switch r.Intn(4) {
						case 0: // reference byte only
							b.ref = byte(r.U32())
							reused.Content(b.content, b.ref)
							steps += "Content(same text, new ref) "
						case 1: // original coding only
							b.origin = valid[r.Intn(len(valid))]
							reused.OriginDataCoding(mkCoding(b.proto, b.origin))
							steps += fmt.Sprintf("OriginDataCoding(%d) ", b.origin)
						case 2: // candidate list only
							b.cands = nil
							for _, n := range valid {
								if r.Bool() {
									b.cands = append(b.cands, n)
								}
							}
							if len(b.cands) == 0 {
								b.cands = []int{valid[r.Intn(len(valid))]}
							}
							reused.DataCodings(mkList(b))
							steps += fmt.Sprintf("DataCodings(%v) ", b.cands)
						default: // text only
							kinds := []codingKind{kASCII, kLatin1, kUCS2, kGB, kGSMUnpacked, kGSMPacked}
							b.content, _ = boundaryText(r, kinds[r.Intn(len(kinds))])
							if len(b.content) > 3000 {
								b.content = b.content[:validPrefix(b.content, 600)]
							}
							if b.content == "" {
								b.content = "z"
							}
							reused.Content(b.content, b.ref)
							steps += "Content(new text, same ref) "
						}
					}
					c.Cover("reusedbuilder/" + b.proto)
				},
			},
			{
				Name: "comparator", Exhaustive: "all (coding, parts 1..4) pairs and triples of each protocol: irreflexive, asymmetric, transitive, total",
				N: func(fw.Tier) uint64 { return 2 },
				Run: func(c *fw.Case) {
					proto, all := "SMPP", smppAll
					if c.Idx == 1 {
						proto, all = "CMPP", cmppAll
					}
					type el struct{ n, parts int }
					var els []el
					for _, n := range all {
						for p := 1; p <= 4; p++ {
							els = append(els, el{n, p})
						}
					}
					less := func(a, b el) bool {
						return protocol.VerifEncoderLess(mkCoding(proto, a.n), a.parts, mkCoding(proto, b.n), b.parts)
					}
					for _, a := range els {
						if less(a, a) {
							c.Failf("comparator-reflexive/"+proto, "less(%v,%v) is true", a, a)
						}
						for _, b := range els {
							c.Evals(1)
							if a != b && less(a, b) == less(b, a) {
								c.Failf("comparator-not-total-or-asymmetric/"+proto, "less(%v,%v)=%v and less(%v,%v)=%v", a, b, less(a, b), b, a, less(b, a))
							}
							for _, d := range els {
								if less(a, b) && less(b, d) && !less(a, d) {
									c.Failf("comparator-not-transitive/"+proto, "%v<%v<%v but not %v<%v", a, b, d, a, d)
								}
							}
						}
					}
					// the sorted order is independent of the input permutation
					for rep := 0; rep < 200; rep++ {
						perm := c.R.Perm(len(els))
						cod := make([]datacoding.ProtocolDataCoding, len(els))
						parts := make([]int, len(els))
						for i, p := range perm {
							cod[i], parts[i] = mkCoding(proto, els[p].n), els[p].parts
						}
						res := protocol.VerifSortEncoders(cod, parts)
						top := els[perm[res[0]]]
						for _, e := range els {
							if e != top && !less(top, e) {
								c.Failf("sort-minimum/"+proto, "sorted minimum %v is not below %v", top, e)
							}
						}
					}
					c.Cover("comparator/" + proto)
				},
			},
			{
				// several Build calls at the same time, each on its own builder and request (a gateway serving many
				// sessions): every one must return the reference winner, and the race detector watches whatever the
				// calls share behind the scenes
				Name: "parallelbuilds", Race: true, N: q(300, 8000),
				GoMaxProcs: func(shard int) int { return []int{2, 4, 8, 16}[shard%4] },
				Run: func(c *fw.Case) {
					G := []int{2, 4, 8, 16}[c.R.Intn(4)] // (not c.Idx%4: the shard stride would tie G to the shard's GOMAXPROCS)
					reqs := make([][]*batchReq, G)
					for g := range reqs {
						for k := 0; k < 6; k++ {
							b := genBatchReq(c.R)
							if len(b.cands) < 2 && c.R.Bool() {
								b = genBatchReq(c.R)
							}
							reqs[g] = append(reqs[g], b)
						}
					}
					type res struct {
						coding, parts int
						err          bool
						dig          string
					}
					run := func(b *batchReq) res {
						list := make([]datacoding.ProtocolDataCoding, len(b.cands))
						for i, n := range b.cands {
							list[i] = mkCoding(b.proto, n)
						}
						enc := protocol.NewBatchDataCodingEncoder().Protocol(protocol.Protocol(b.proto)).Content(b.content, b.ref).DataCodings(list)
						if b.origin != -1000 {
							enc = enc.OriginDataCoding(mkCoding(b.proto, b.origin))
						}
						parts, f, err := enc.Build(context.Background())
						r := res{coding: -1, parts: len(parts), err: err != nil, dig: digestParts(parts, nil)}
						if f != nil {
							r.coding = f.ToInt()
						}
						return r
					}
					got := make([][]res, G)
					var wg sync.WaitGroup
					start := make(chan struct{})
					for g := 0; g < G; g++ {
						wg.Add(1)
						go func(g int) {
							defer wg.Done()
							<-start
							for _, b := range reqs[g] {
								got[g] = append(got[g], run(b))
							}
						}(g)
					}
					close(start)
					wg.Wait()
					c.Evals(uint64(G * 6))
					for g := 0; g < G; g++ {
						for k, b := range reqs[g] {
							alone := run(b) // the same request, now with nothing else going on
							if k < len(got[g]) && got[g][k] != alone {
								c.Failf("differs-when-run-in-parallel/"+b.proto, "Build of %s while %d other goroutines were building: coding %d, %d parts, err=%v; alone: coding %d, %d parts, err=%v",
									b.String(), G-1, got[g][k].coding, got[g][k].parts, got[g][k].err, alone.coding, alone.parts, alone.err)
								return
							}
						}
					}
					c.Cover(fmt.Sprintf("parallelbuilds/G%d", G))
				},
			},
			{
				Name: "concurrent", Race: true, N: q(2500, 60000),
				GoMaxProcs: func(shard int) int { return []int{1, 2, 4, 8, 16}[shard%5] },
				Run: func(c *fw.Case) {
					reps := 8
					if c.Tier == fw.Thorough {
						reps = 32
					}
					c09Case(c, reps, true)
				},
			},
		},
	})
}
