package props

import (
	"bytes"
	"encoding/binary"
	"errors"
	"fmt"
	"reflect"

	sms "github.com/hujm2023/go-sms-protocol"
	"github.com/hujm2023/go-sms-protocol/cmpp/cmpp20"
	"github.com/hujm2023/go-sms-protocol/sgip/sgip12"
	"github.com/hujm2023/go-sms-protocol/smgp/smgp30"
	"github.com/hujm2023/go-sms-protocol/smpp/smpp34"

	"verifmon/fw"
	"verifmon/pdus"
)

// C10 — responses pair with their requests; dispatch is consistent with encoding.

func seqOffset(t *pdus.Type) int {
	switch t.HKind {
	case "smpp":
		return 12
	case "sgip":
		return 16
	}
	return 8
}

func goName(p sms.PDU) string {
	if p == nil {
		return "<nil>"
	}
	return reflect.TypeOf(p).Elem().String()
}

// cmdMatchesHeader: for a PDU obtained from the library, GetCommand equals the command id in its encoded header.
func cmdMatchesHeader(c *fw.Case, origin string, p sms.PDU) {
	var b []byte
	var err error
	var cmd uint32
	if pan, val, st := fw.Try(func() { cmd = p.GetCommand().ToUint32(); b, err = p.IEncode() }); pan {
		c.Failf("library-made-"+fw.PanicSig(val, st)+"/"+origin, "%s %s: %v\n%s", origin, goName(p), val, st)
		return
	}
	c.Evals(1)
	if err != nil || len(b) < 8 {
		c.Failf("library-made-pdu-does-not-encode/"+origin+"/"+goName(p), "%s made a %s that does not encode: %v", origin, goName(p), err)
		return
	}
	if got := binary.BigEndian.Uint32(b[4:8]); got != cmd {
		c.Failf("command-differs-from-header/"+origin+"/"+goName(p), "%s: GetCommand()=%#x but the encoded header carries %#x (image %s)", goName(p), cmd, got, hx(b))
	}
}

func c10Request(c *fw.Case, ts *pdus.Tables, t *pdus.Type) {
	v, _ := pdus.Gen(t.Lib(), c.R, -1, 0)
	switch c.R.Intn(5) {
	case 0:
		v.Seq = [3]uint32{0, 0, 0}
	case 1:
		v.Seq = [3]uint32{0xffffffff, 0xfffffffe, 0xfffffffd}
	case 2:
		v.Seq = [3]uint32{3, 2, 1}
	}
	p := pdus.Build(t.Lib(), v)
	ctx := func() string { return fmt.Sprintf("%s seq=%v", t.Key(), v.Seq) }
	var r sms.PDU
	if pan, val, st := fw.Try(func() { r = p.GenEmptyResponse() }); pan {
		c.Failf("gen-response-"+fw.PanicSig(val, st)+"/"+t.Key(), "%s: %v\n%s", ctx(), val, st)
		return
	}
	c.Evals(1)
	// generating the response must leave the request as it was
	if after := pdus.Extract(t.Lib(), p); len(pdus.Diff(t.Lib(), v, after)) > 0 || after.Cmd != v.Cmd {
		c.Failf("request-changed-by-generating-response/"+t.Key(), "%s: after GenEmptyResponse() the request itself differs: %v (command %#x -> %#x)", ctx(), pdus.Diff(t.Lib(), v, after), v.Cmd, after.Cmd)
	}
	if got := p.GetCommand().ToUint32(); got != t.Cmd {
		c.Failf("request-command-after-response/"+t.Key(), "%s: after GenEmptyResponse() the request reports command %#x, expected %#x", ctx(), got, t.Cmd)
	}
	if t.IsResponse() || t.Resp == "" {
		if r != nil && !reflect.ValueOf(r).IsNil() {
			c.Failf("response-generates-response/"+t.Key(), "%s is a response but GenEmptyResponse() returned a %s", ctx(), goName(r))
		}
		c.Cover("pairing/" + t.Key() + "/nil")
	} else {
		rt := ts.ByName(t.Family, t.Resp)
		if r == nil || reflect.ValueOf(r).IsNil() {
			c.Failf("no-response/"+t.Key(), "%s: GenEmptyResponse() returned nil", ctx())
			return
		}
		if goName(r) != goName(rt.New()) {
			c.Failf("wrong-response-type/"+t.Key(), "%s: GenEmptyResponse() is a %s, the protocol's response is %s (%s)", ctx(), goName(r), goName(rt.New()), rt.Name)
			return
		}
		if got := r.GetCommand().ToUint32(); got != t.Cmd|0x80000000 {
			c.Failf("response-command/"+t.Key(), "%s: response reports command %#x, expected %#x", ctx(), got, t.Cmd|0x80000000)
		}
		if got := r.GetSequenceID(); got != v.Seq[2] {
			c.Failf("response-sequence/"+t.Key(), "%s: response GetSequenceID()=%d, request %d", ctx(), got, v.Seq[2])
		}
		rv := pdus.Extract(rt.Lib(), r)
		if t.HKind == "sgip" && rv.Seq != v.Seq {
			word := 0
			for word < 2 && rv.Seq[word] == v.Seq[word] {
				word++
			}
			c.Failf(fmt.Sprintf("response-sequence-word%d/%s", word, t.Key()), "%s: SGIP response carries sequence words %v; SGIP 1.2 §3.4 requires the command's sequence number %v to be repeated", ctx(), rv.Seq, v.Seq)
		}
		if rv.Cmd != t.Cmd|0x80000000 {
			c.Failf("response-header-command/"+t.Key(), "%s: response header command %#x, expected %#x", ctx(), rv.Cmd, t.Cmd|0x80000000)
		}
		cmdMatchesHeader(c, "GenEmptyResponse", r)
		c.Sample(3, map[string]any{"request": t.Key(), "sequence": v.Seq, "response_type": goName(r), "response_command": fmt.Sprintf("%#x", r.GetCommand().ToUint32()), "response_sequence_words": rv.Seq})
		c.Cover("pairing/" + t.Key() + "/" + rt.Name)
	}
	// SetSequenceID is observable through the getter and at the header offset
	x := c.R.U32()
	if c.R.Chance(1, 4) {
		x = []uint32{0, 1, 0x7fffffff, 0x80000000, 0xffffffff}[c.R.Intn(5)]
	}
	var b []byte
	var err error
	var got uint32
	if pan, val, st := fw.Try(func() { p.SetSequenceID(x); got = p.GetSequenceID(); b, err = p.IEncode() }); pan {
		c.Failf("set-sequence-"+fw.PanicSig(val, st)+"/"+t.Key(), "%s: %v\n%s", ctx(), val, st)
		return
	}
	if got != x {
		c.Failf("set-sequence-getter/"+t.Key(), "%s: SetSequenceID(%d) then GetSequenceID()=%d", ctx(), x, got)
	}
	if err == nil {
		if len(b) >= 8 && binary.BigEndian.Uint32(b[4:8]) != t.Cmd {
			c.Failf("request-header-command-after-response/"+t.Key(), "%s: encoded after GenEmptyResponse(), the request's header carries command %#x, expected %#x", ctx(), binary.BigEndian.Uint32(b[4:8]), t.Cmd)
		}
		off := seqOffset(t)
		if len(b) < off+4 || binary.BigEndian.Uint32(b[off:]) != x {
			c.Failf("set-sequence-header/"+t.Key(), "%s: SetSequenceID(%d) is not at header offset %d of the image %s", ctx(), x, off, hx(b))
		}
	}
}

func c10Dispatch(c *fw.Case, ts *pdus.Tables, t *pdus.Type) {
	force, class := -1, 0
	if len(t.Fields) > 0 && c.R.Chance(1, 4) {
		// "every encoded PDU its package can produce" includes the big ones: a forced boundary class (64 KiB bodies,
		// 65531-octet optional parameters, 255 destinations)
		force = c.R.Intn(len(t.Fields))
		class = c.R.Intn(pdus.NumClasses(t, &t.Fields[force]))
	}
	v, _ := pdus.Gen(t, c.R, force, class)
	img := pdus.RefEncode(t, v)
	if t.Key() == "smgp30.ActiveTestResp/Active_Test_Resp" && c.R.Bool() {
		img = append(img, 0) // the library's own 13-octet form
		binary.BigEndian.PutUint32(img, uint32(len(img)))
	}
	if c.R.Bool() {
		// "every encoded PDU its package can produce": the library's own image of the same values
		if b, eerr, psig, _ := encode(c, pdus.Build(t.Lib(), v)); psig == "" && eerr == nil {
			img = b
		}
	}
	var p sms.PDU
	var err error
	d := pdus.Dispatchers[t.Family]
	if pan, val, st := fw.Try(func() { p, err = d(append([]byte(nil), img...)) }); pan {
		c.Failf("dispatch-"+fw.PanicSig(val, st)+"/"+t.Key(), "%s image %s: %v\n%s", t.Key(), hx(img), val, st)
		return
	}
	c.Evals(1)
	if err != nil || p == nil {
		kind := "dispatch-error"
		if errors.Is(err, sms.ErrUnsupportedPacket) {
			kind = "dispatch-unknown-own-type"
		}
		if err == nil {
			kind = "dispatch-nil-nil"
		}
		c.Failf(kind+"/"+t.Key(), "Decode%s does not map an encoded %s (command %#x) back to its type: pdu=%s err=%v image=%s", t.Family, t.Key(), t.Cmd, goName(p), err, hx(img))
		return
	}
	if goName(p) != goName(t.New()) {
		c.Failf("dispatch-wrong-type/"+t.Key(), "Decode%s mapped command %#x to %s, expected %s", t.Family, t.Cmd, goName(p), goName(t.New()))
		return
	}
	if got := p.GetCommand().ToUint32(); got != t.Cmd {
		c.Failf("decoded-command/"+t.Key(), "PDU decoded from an image with command %#x reports GetCommand()=%#x", t.Cmd, got)
	}
	cmdMatchesHeader(c, "dispatcher", p)
	// two results of the dispatcher alive at the same time (a server holding a request while the next one arrives):
	// each is a PDU of its own
	if c.R.Chance(1, 2) {
		lt := t.Lib()
		snap := pdus.Extract(lt, p)
		v2, _ := pdus.Gen(t, c.R, -1, 0)
		img2 := pdus.RefEncode(t, v2)
		var p2 sms.PDU
		var err2 error
		if pan, val, st := fw.Try(func() { p2, err2 = d(append([]byte(nil), img2...)) }); pan {
			c.Failf("dispatch-"+fw.PanicSig(val, st)+"/"+t.Key(), "%s image %s: %v\n%s", t.Key(), hx(img2), val, st)
			return
		}
		c.Evals(1)
		if err2 == nil && p2 != nil {
			if df := pdus.Diff(lt, snap, pdus.Extract(lt, p)); len(df) > 0 {
				c.Failf("dispatched-pdu-changed-by-next-dispatch/"+t.Key(), "the PDU Decode%s returned for the first packet changed when the next packet of the same command was decoded: %v", t.Family, df)
				return
			}
			var g1, g2 uint32
			fw.Try(func() { p.SetSequenceID(100); p2.SetSequenceID(200); g1, g2 = p.GetSequenceID(), p2.GetSequenceID() })
			if g1 != 100 || g2 != 200 {
				c.Failf("set-sequence-getter/two-dispatched/"+t.Key(), "two PDUs from Decode%s: SetSequenceID(100) on the first and (200) on the second read back %d and %d", t.Family, g1, g2)
				return
			}
		}
	}
	// a response generated from a dispatcher-made request keeps the flavour (all three SMPP binds)
	if !t.IsResponse() && t.Resp != "" {
		var r sms.PDU
		fw.Try(func() { r = p.GenEmptyResponse() })
		if r != nil && !reflect.ValueOf(r).IsNil() {
			if got := r.GetCommand().ToUint32(); got != t.Cmd|0x80000000 {
				c.Failf("response-command/"+t.Key(), "request decoded from command %#x generates a response reporting %#x, expected %#x", t.Cmd, got, t.Cmd|0x80000000)
			}
			cmdMatchesHeader(c, "GenEmptyResponse(dispatched)", r)
		}
	}
	c.Cover("dispatch/" + t.Key())
}

// definedIDs: every command id constant of the four const blocks and its response-bit twin.
func definedIDs(fam string) []uint32 {
	var base []uint32
	switch fam {
	case "cmpp20", "cmpp30":
		for i := uint32(0); i <= 0x10; i++ {
			base = append(base, i)
		}
		for i := uint32(0x10); i <= 0x17; i++ {
			base = append(base, i)
		}
	case "sgip12":
		for i := uint32(0); i <= 0x12; i++ {
			base = append(base, i)
		}
		base = append(base, 0x1000, 0x1001, 0x1002) // trace commands of SGIP 1.2
	case "smgp30":
		for i := uint32(0); i <= 0x0b; i++ {
			base = append(base, i)
		}
	case "smpp34":
		base = append(base, 0, 1, 2, 3, 4, 5, 6, 7, 8, 9, 0x0b, 0x15, 0x21, 0x102, 0x103)
	}
	out := append([]uint32(nil), base...)
	for _, b := range base {
		out = append(out, b|0x80000000)
	}
	return out
}

func c10Unknown(c *fw.Case, ts *pdus.Tables, fam string, id uint32) {
	if ts.ByCmd(fam, id) != nil {
		return
	}
	hl := ts.ByFamily[fam][0].HeaderLen()
	img := make([]byte, hl+64)
	copy(img[hl:], c.R.Bytes(64))
	if c.R.Bool() {
		img = img[:hl+c.R.Intn(64)]
	}
	binary.BigEndian.PutUint32(img, uint32(len(img)))
	binary.BigEndian.PutUint32(img[4:], id)
	var p sms.PDU
	var err error
	if pan, val, st := fw.Try(func() { p, err = pdus.Dispatchers[fam](append([]byte(nil), img...)) }); pan {
		c.Failf("dispatch-"+fw.PanicSig(val, st)+"/"+fam, "command %#x: %v\n%s", id, val, st)
		return
	}
	c.Evals(1)
	switch {
	case p == nil && err == nil:
		c.Failf("dispatch-nil-nil/"+fam, "Decode%s returned a nil PDU and a nil error for command %#x (image %s)", fam, id, hx(img))
	case !errors.Is(err, sms.ErrUnsupportedPacket):
		c.Failf("unknown-command-not-unsupported/"+fam, "Decode%s answered command %#x, which the package cannot encode, with pdu=%s err=%v instead of ErrUnsupportedPacket", fam, id, goName(p), err)
	}
}

// c10Lifecycle takes ONE PDU object through the life a connection handler gives it: encoded, renumbered, encoded
// again, answered, decoded into again (a reused request object), answered again. After every step the sequence
// number the object reports, the one in its encoded header and the one its generated response carries are the
// one last given to it.
func c10Lifecycle(c *fw.Case, ts *pdus.Tables, t *pdus.Type) {
	lt := t.Lib()
	v, _ := pdus.Gen(lt, c.R, -1, 0)
	p := pdus.Build(lt, v)
	want := v.Seq
	if t.HKind != "sgip" {
		want = [3]uint32{0, 0, v.Seq[2]}
	}
	off := seqOffset(t)
	trail := "built"
	for round := 0; round < 5; round++ {
		step := ""
		switch k := c.R.Intn(4); {
		case round == 0:
			step = "as built"
		case k == 0 || k == 1:
			x := c.R.U32()
			if c.R.Chance(1, 4) {
				x = []uint32{0, 1, 0x7fffffff, 0x80000000, 0xffffffff}[c.R.Intn(5)]
			}
			if pan, val, st := fw.Try(func() { p.SetSequenceID(x) }); pan {
				c.Failf("set-sequence-"+fw.PanicSig(val, st)+"/"+t.Key(), "%s (%s): %v\n%s", t.Key(), trail, val, st)
				return
			}
			want[2] = x
			step = "SetSequenceID"
		case k == 2:
			v2, _ := pdus.Gen(t, c.R, -1, 0)
			img := pdus.RefEncode(t, v2)
			var err error
			if pan, val, st := fw.Try(func() { err = p.IDecode(img) }); pan {
				c.Failf("lifecycle-"+fw.PanicSig(val, st)+"/"+t.Key(), "%s (%s): IDecode: %v\n%s", t.Key(), trail, val, st)
				return
			}
			if err != nil {
				return // a refused image leaves the object in no particular state
			}
			want = v2.Seq
			if t.HKind != "sgip" {
				want = [3]uint32{0, 0, v2.Seq[2]}
			}
			step = "IDecode"
		default:
			step = "again"
		}
		trail += ">" + step
		c.Evals(1)
		var b, rb []byte
		var err, rerr error
		var got uint32
		var r sms.PDU
		if pan, val, st := fw.Try(func() {
			got = p.GetSequenceID()
			b, err = p.IEncode()
			r = p.GenEmptyResponse()
			if r != nil && !reflect.ValueOf(r).IsNil() {
				rb, rerr = r.IEncode()
			} else {
				r = nil
			}
		}); pan {
			c.Failf("lifecycle-"+fw.PanicSig(val, st)+"/"+t.Key(), "%s (%s): %v\n%s", t.Key(), trail, val, st)
			return
		}
		if got != want[2] {
			c.Failf("lifecycle-getter/"+t.Key()+"/"+step, "%s (%s): GetSequenceID()=%d, the object was last given %d", t.Key(), trail, got, want[2])
			return
		}
		if err == nil && (len(b) < off+4 || binary.BigEndian.Uint32(b[off:]) != want[2]) {
			c.Failf("lifecycle-header/"+t.Key()+"/"+step, "%s (%s): the object was last given sequence %d, its encoded header is %s", t.Key(), trail, want[2], hx(b[:min(len(b), off+4)]))
			return
		}
		if err == nil && t.HKind == "sgip" && (binary.BigEndian.Uint32(b[8:]) != want[0] || binary.BigEndian.Uint32(b[12:]) != want[1]) {
			c.Failf("lifecycle-header/"+t.Key()+"/"+step, "%s (%s): sequence words %v, encoded header %s", t.Key(), trail, want, hx(b[:20]))
			return
		}
		if r != nil {
			if r.GetSequenceID() != want[2] || r.GetCommand().ToUint32() != t.Cmd|0x80000000 {
				c.Failf("lifecycle-response/"+t.Key()+"/"+step, "%s (%s): the request carries sequence %d, its generated response reports sequence %d and command %#x", t.Key(), trail, want[2], r.GetSequenceID(), r.GetCommand().ToUint32())
				return
			}
			if rerr == nil && (len(rb) < off+4 || binary.BigEndian.Uint32(rb[off:]) != want[2] || binary.BigEndian.Uint32(rb[4:]) != t.Cmd|0x80000000 ||
				(t.HKind == "sgip" && (binary.BigEndian.Uint32(rb[8:]) != want[0] || binary.BigEndian.Uint32(rb[12:]) != want[1]))) {
				c.Failf("lifecycle-response-header/"+t.Key()+"/"+step, "%s (%s): the request carries sequence %v, the encoded header of its generated response is %s", t.Key(), trail, want, hx(rb[:min(len(rb), off+4)]))
				return
			}
			// the caller numbers the reply itself (a relay): that is the reply's business, never the request's
			if c.R.Chance(1, 3) {
				r.SetSequenceID(^want[2])
				if p.GetSequenceID() != want[2] {
					c.Failf("lifecycle-response-shares-request/"+t.Key(), "%s (%s): renumbering the generated response changed the request's sequence to %d", t.Key(), trail, p.GetSequenceID())
					return
				}
			}
		}
		c.Cover("lifecycle/" + t.Key() + "/" + step)
	}
}

func init() {
	ts := func() *pdus.Tables { return pdus.Load() }
	fw.Register(&fw.Prop{
		ID:        "C10",
		Technique: "runtime monitor: pairing table oracle (request -> response type / sequence words / command id from the specifications) + dispatcher consistency oracle over encoded images and enumerated command ids",
		Rule: "every request/response type x boundary and random sequence numbers (SGIP: all three words) x the three SMPP bind flavours; one object through encode / SetSequenceID / encode / GenEmptyResponse / IDecode of another image / GenEmptyResponse (lifecycle); dispatchers on the reference image of every type and on every command id defined in the const blocks plus their response-bit twins (exhaustive) and random ids; constructors NewConnect/NewBind/NewLogin and the New…Packet/Bytes helpers; " +
			"distinct_nontrivial = distinct (clause, PDU type | family) keys judged",
		Assumptions: []string{
			"response table and the SGIP rule (all three sequence words repeated, SGIP 1.2 §3.4) come from the specifications, see spec/wire_tables.json",
			"only PDUs obtained from the library (dispatcher, GenEmptyResponse, constructors) are required to report the command of their encoded header",
		},
		Stages: []*fw.Stage{
			{Name: "pairing", N: q(61*300, 61*300000), Run: func(c *fw.Case) { c10Request(c, ts(), typeIdx(ts(), c.Idx)) }},
			{Name: "lifecycle", N: q(61*150, 61*150000), Run: func(c *fw.Case) { c10Lifecycle(c, ts(), typeIdx(ts(), c.Idx)) }},
			{Name: "dispatch", N: q(61*200, 61*200000), Run: func(c *fw.Case) { c10Dispatch(c, ts(), typeIdx(ts(), c.Idx)) }},
			{
				Name: "definedids", Exhaustive: "every command id defined in the cmpp/sgip/smgp/smpp const blocks and its response-bit twin, per dispatcher",
				N: func(fw.Tier) uint64 { return 5 * 8 },
				Run: func(c *fw.Case) {
					fam := pdus.Families[c.Idx%5]
					for _, id := range definedIDs(fam) {
						c10Unknown(c, ts(), fam, id)
					}
					c.Cover("definedids/" + fam)
				},
			},
			{
				// ids one or two bits away from an id the package does encode: a dispatcher that masks, shifts or
				// compares part of the id maps them to a type
				Name: "nearmissids", Exhaustive: "every defined id (and its response twin) of every family with each single bit flipped and with each pair of bits among 24..31 flipped",
				N: func(fw.Tier) uint64 { return 5 },
				Run: func(c *fw.Case) {
					fam := pdus.Families[c.Idx%5]
					n := 0
					for _, t := range ts().ByFamily[fam] {
						for b := uint(0); b < 32; b++ {
							c10Unknown(c, ts(), fam, t.Cmd^(1<<b))
							n++
						}
						for b1 := uint(24); b1 < 32; b1++ {
							for b2 := b1 + 1; b2 < 32; b2++ {
								c10Unknown(c, ts(), fam, t.Cmd^(1<<b1)^(1<<b2))
								n++
							}
						}
						c10Unknown(c, ts(), fam, t.Cmd&0x0fffffff|0x10000000)
						c10Unknown(c, ts(), fam, t.Cmd|0x70000000)
					}
					c.Cover(fmt.Sprintf("nearmissids/%s/%d", fam, n))
				},
			},
			{
				Name: "randomids", N: q(100000, 100000000),
				Run: func(c *fw.Case) {
					fam := pdus.Families[c.Idx%5]
					id := c.R.U32()
					if c.R.Chance(1, 3) {
						id = uint32(c.R.Intn(0x200)) | uint32(c.R.Intn(2))<<31
					}
					c10Unknown(c, ts(), fam, id)
					c.Cover(fmt.Sprintf("randomids/%s/top%x", fam, id>>28))
				},
			},
			{
				Name: "constructors", N: q(2000, 1000000),
				Run: func(c *fw.Case) {
					seq := c.R.U32()
					acct := string(nonNulASCII(c.R, c.R.Range(0, 6)))
					pw := string(nonNulASCII(c.R, c.R.Range(0, 12)))
					pd := []struct {
						name string
						p    sms.PDU
						fam  string
					}{
						{"cmpp20.NewConnect", cmpp20.NewConnect(acct, pw, seq), "cmpp20"},
						{"sgip12.NewBind", sgip12.NewBind(acct, pw, c.R.U32(), seq), "sgip12"},
						{"smgp30.NewLogin", smgp30.NewLogin(acct, pw, seq), "smgp30"},
					}
					for _, x := range pd {
						cmdMatchesHeader(c, x.name, x.p)
						if x.p.GetSequenceID() != seq {
							c.Failf("constructor-sequence/"+x.name, "%s(seq=%d).GetSequenceID()=%d", x.name, seq, x.p.GetSequenceID())
						}
						c.Cover("constructors/" + x.name)
					}
					by := []struct {
						name string
						b    []byte
						fam  string
						off  int
					}{
						{"cmpp20.NewTerminatePacket", cmpp20.NewTerminatePacket(seq), "cmpp20", 8},
						{"cmpp20.NewActiveTestPacket", cmpp20.NewActiveTestPacket(seq), "cmpp20", 8},
						{"smgp30.NewActiveTestPacket", smgp30.NewActiveTestPacket(seq), "smgp30", 8},
						{"smpp34.NewEnquireLinkReqBytes", smpp34.NewEnquireLinkReqBytes(seq), "smpp34", 12},
						{"smpp34.NewEnquireLinkRespBytes", smpp34.NewEnquireLinkRespBytes(seq), "smpp34", 12},
						{"smpp34.NewUnBindRespBytes", smpp34.NewUnBindRespBytes(seq), "smpp34", 12},
						{"smpp34.NewDeliverySMRespBytes", smpp34.NewDeliverySMRespBytes(seq), "smpp34", 12},
						{"smpp34.NewUnBindBytes", smpp34.NewUnBindBytes(seq), "smpp34", 12},
					}
					// packets handed out earlier stay what they were
					for _, h := range heldPackets {
						if !bytes.Equal(h.live, h.snap) {
							c.Failf("helper-image-changed-later/"+h.name, "a packet returned by %s earlier now reads %s, was %s", h.name, hx(h.live), hx(h.snap))
						}
					}
					heldPackets = heldPackets[:0]
					for _, x := range by {
						heldPackets = append(heldPackets, heldPacket{x.name, x.b, append([]byte(nil), x.b...)})
						c.Evals(1)
						if len(x.b) < x.off+4 || int(binary.BigEndian.Uint32(x.b)) != len(x.b) || binary.BigEndian.Uint32(x.b[x.off:]) != seq {
							c.Failf("helper-image/"+x.name, "%s(%d) = %s: length word or sequence number wrong", x.name, seq, hx(x.b))
							continue
						}
						p, err := pdus.Dispatchers[x.fam](x.b)
						if err != nil || p == nil {
							c.Failf("helper-image-not-dispatchable/"+x.name, "Decode%s(%s(%d)) = (%s, %v): the package cannot decode what it builds", x.fam, x.name, seq, goName(p), err)
							continue
						}
						if p.GetSequenceID() != seq || p.GetCommand().ToUint32() != binary.BigEndian.Uint32(x.b[4:8]) {
							c.Failf("helper-image-decodes-differently/"+x.name, "%s(%d) decodes to %s seq=%d cmd=%#x", x.name, seq, goName(p), p.GetSequenceID(), p.GetCommand().ToUint32())
						}
						c.Cover("constructors/" + x.name)
					}
				},
			},
		},
	})
}

type heldPacket struct {
	name       string
	live, snap []byte
}

// heldPackets: the helper packets of the previous case (one goroutine per worker process).
var heldPackets []heldPacket

func nonNulASCII(r *fw.Rng, n int) []byte {
	b := make([]byte, n)
	for i := range b {
		b[i] = byte('0' + r.Intn(75))
	}
	return b
}
