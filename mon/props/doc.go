// Package props holds one monitor per property (C01..C20); each file registers itself.
package props
