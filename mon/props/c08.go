package props

import (
	"bytes"
	"fmt"
	"io"

	"golang.org/x/text/transform"

	"github.com/hujm2023/go-sms-protocol/datacoding"
	g7 "github.com/hujm2023/go-sms-protocol/datacoding/gsm7encoding"

	"verifmon/fw"
	"verifmon/ref"
)

// C08 — GSM 7-bit alphabet and septet packing per 3GPP TS 23.038, and agreement of all entry points.

var c08alpha = []byte{0x00, 0x01, 0x0d, 0x1b, 0x3f, 0x40, 0x7f}

func try1(c *fw.Case, what string, in []byte, f func()) bool {
	arm(c, len(in)+64)
	p, val, st := fw.Try(f)
	disarm(c)
	if p {
		c.Failf(fw.PanicSig(val, st)+"/"+what, "%s input=%s\npanic: %v\n%s", what, hx(in), val, st)
		return false
	}
	return true
}

// prevDecoded remembers the decoded text of the previous sequence (one goroutine per worker process).
var prevDecoded struct {
	live []byte
	want string
}

func inList(x []byte, l [][]byte) bool {
	for _, y := range l {
		if bytes.Equal(x, y) {
			return true
		}
	}
	return false
}

// c08Septets checks packing/unpacking and every entry point on one septet sequence (values < 0x80).
func c08Septets(c *fw.Case, s []byte, class string) {
	c.Evals(1)
	want := ref.Pack(s)
	var packed []byte
	if !try1(c, "Pack", s, func() { packed = g7.Pack(append([]byte(nil), s...)) }) {
		return
	}
	if !bytes.Equal(packed, want) {
		c.Failf("pack-layout", "Pack(%s) = %s, TS 23.038 bit stream = %s (n=%d)", hx(s), hx(packed), hx(want), len(s))
		return
	}
	// a caller that packs one septet run in segments (parts of a long message) hands Pack windows of ONE array:
	// each segment packs as it does alone, and what lies behind a window is still the caller's
	if len(s) >= 2 {
		k := len(s) / 2
		if j := (len(s)-1)/8*8 - 1; j > 0 {
			k = j // a segment of 8n+7 septets: the case with a fill septet
		}
		run := append([]byte(nil), s...)
		var p1, p2 []byte
		if !try1(c, "Pack", s, func() { p1 = g7.Pack(run[:k]); p2 = g7.Pack(run[k:]) }) {
			return
		}
		if !bytes.Equal(p1, ref.Pack(s[:k])) || !bytes.Equal(p2, ref.Pack(s[k:])) || !bytes.Equal(run, s) {
			c.Failf("pack-segments-of-one-run", "septets %s packed as segments [:%d] and [%d:] of one array: %s and %s, alone they pack to %s and %s; the caller's array afterwards: %s",
				hx(s), k, k, hx(p1), hx(p2), hx(ref.Pack(s[:k])), hx(ref.Pack(s[k:])), hx(run))
			return
		}
	}
	// Unpack(Pack(s)) == s up to the two end-of-message carve-outs
	var un []byte
	if !try1(c, "Unpack", packed, func() { un = g7.Unpack(append([]byte(nil), packed...)) }) {
		return
	}
	okSet := [][]byte{s}
	if ref.EndAmbiguous(s) {
		okSet = append(okSet, s[:len(s)-1])
	}
	if !inList(un, okSet) {
		kind := "unpack-roundtrip"
		if len(un) < len(s) {
			kind = "unpack-drops-septet"
		}
		c.Failf(kind, "Unpack(Pack(s)) != s: s=%s (n=%d) packed=%s unpacked=%s (n=%d)", hx(s), len(s), hx(packed), hx(un), len(un))
	}
	// the packed stream transformer and the codec agree with the function pair on text level
	tab := ref.GSM7()
	text, decodable := tab.Decode(s)
	var viaDecoder []byte
	var derr error
	if !try1(c, "GSM7(packed).Decoder", packed, func() {
		viaDecoder, _, derr = transform.Bytes(g7.GSM7(true).NewDecoder(), append([]byte(nil), packed...))
	}) {
		return
	}
	var viaCodec []byte
	var cerr error
	if !try1(c, "GSM7Packed.Decode", packed, func() { viaCodec, cerr = datacoding.GSM7Packed(append([]byte(nil), packed...)).Decode() }) {
		return
	}
	var viaFuncs []byte
	var ferr error
	try1(c, "Decode(Unpack)", packed, func() { viaFuncs, ferr = g7.Decode(g7.Unpack(append([]byte(nil), packed...))) })
	if (derr == nil) != (ferr == nil) || (cerr == nil) != (ferr == nil) || (ferr == nil && (!bytes.Equal(viaDecoder, viaFuncs) || !bytes.Equal(viaCodec, viaFuncs))) {
		c.Failf("entrypoints-disagree/packed-decode", "packed=%s: transformer=(%q,%v) codec=(%q,%v) Decode(Unpack)=(%q,%v)", hx(packed), viaDecoder, derr, viaCodec, cerr, viaFuncs, ferr)
	}
	if decodable && !ref.EndAmbiguous(s) {
		if ferr != nil || string(viaFuncs) != text {
			c.Failf("packed-text-roundtrip", "septets %s (text %q) -> packed %s -> decoded (%q, %v)", hx(s), text, hx(packed), viaFuncs, ferr)
		}
	}
	if decodable {
		// encoders: text -> septets -> packed must reproduce s/packed (only for canonical septet sequences: text re-encodes to s)
		if re, ok := tab.Encode(text); ok && bytes.Equal(re, s) {
			var enc []byte
			var eerr error
			try1(c, "Encode", []byte(text), func() { enc, eerr = g7.Encode(text) })
			if len(s) > 0 && (eerr != nil || !bytes.Equal(enc, s)) {
				c.Failf("encode-septets", "Encode(%q) = (%s, %v), reference %s", text, hx(enc), eerr, hx(s))
			}
			var tp []byte
			var tperr error
			try1(c, "GSM7(packed).Encoder", []byte(text), func() { tp, _, tperr = transform.Bytes(g7.GSM7(true).NewEncoder(), []byte(text)) })
			if tperr != nil || !bytes.Equal(tp, want) {
				c.Failf("entrypoints-disagree/packed-encode", "GSM7(true).NewEncoder on %q = (%s, %v), Pack(Encode) = %s", text, hx(tp), tperr, hx(want))
			}
			var cp []byte
			var cperr error
			try1(c, "GSM7Packed.Encode", []byte(text), func() { cp, cperr = datacoding.GSM7Packed(text).Encode() })
			if cperr != nil || !bytes.Equal(cp, want) {
				c.Failf("entrypoints-disagree/packed-codec-encode", "GSM7Packed(%q).Encode = (%s, %v), reference %s", text, hx(cp), cperr, hx(want))
			}
			var tu []byte
			var tuerr error
			try1(c, "GSM7(unpacked).Encoder", []byte(text), func() { tu, _, tuerr = transform.Bytes(g7.GSM7(false).NewEncoder(), []byte(text)) })
			if tuerr != nil || !bytes.Equal(tu, s) {
				c.Failf("entrypoints-disagree/unpacked-encode", "GSM7(false).NewEncoder on %q = (%s, %v), reference %s", text, hx(tu), tuerr, hx(s))
			}
		}
	}
	// unpacked decode entry points on s itself
	var d1, d2, d3 []byte
	var e1, e2, e3 error
	try1(c, "Decode", s, func() { d1, e1 = g7.Decode(append([]byte(nil), s...)) })
	try1(c, "GSM7(unpacked).Decoder", s, func() { d2, _, e2 = transform.Bytes(g7.GSM7(false).NewDecoder(), append([]byte(nil), s...)) })
	try1(c, "GSM7Unpacked.Decode", s, func() { d3, e3 = datacoding.GSM7Unpacked(append([]byte(nil), s...)).Decode() })
	var inval []byte
	try1(c, "ValidateGSM7Buffer", s, func() { inval = g7.ValidateGSM7Buffer(append([]byte(nil), s...)) })
	// results stay what they were: the previous call's decoded text must not be disturbed by the calls made since
	if prevDecoded.live != nil && string(prevDecoded.live) != prevDecoded.want {
		c.Failf("decoded-text-changed-by-later-call", "the text returned by an earlier Decode (%q) reads %q after later calls on other input", prevDecoded.want, prevDecoded.live)
	}
	prevDecoded.live, prevDecoded.want = nil, ""
	if e1 == nil && len(d1) > 0 {
		prevDecoded.live, prevDecoded.want = d1, string(d1)
	} else if ferr == nil && len(viaFuncs) > 0 {
		prevDecoded.live, prevDecoded.want = viaFuncs, string(viaFuncs)
	}
	if (e1 == nil) != decodable || (decodable && string(d1) != text) {
		c.Failf("decode-septets", "Decode(%s) = (%q, %v), reference (%q, ok=%v)", hx(s), d1, e1, text, decodable)
	}
	if (e1 == nil) != (e2 == nil) || (e1 == nil) != (e3 == nil) || (e1 == nil && (!bytes.Equal(d1, d2) || !bytes.Equal(d1, d3))) {
		c.Failf("entrypoints-disagree/unpacked-decode", "septets=%s: Decode=(%q,%v) transformer=(%q,%v) codec=(%q,%v)", hx(s), d1, e1, d2, e2, d3, e3)
	}
	if (len(inval) == 0) != (e1 == nil) {
		c.Failf("entrypoints-disagree/validate-buffer", "ValidateGSM7Buffer(%s)=%s but Decode error=%v", hx(s), hx(inval), e1)
	}
	if len(s) > 2 {
		c.Sample(2, map[string]any{"septets": hx(s), "packed": hx(packed), "unpacked": hx(un), "text": text, "decodable": decodable})
	}
	c.Cover("septets/" + class)
}

// c08Octets checks Unpack (and the packed decoders) on arbitrary octets against the reference unpacker.
func c08Octets(c *fw.Case, b []byte, class string) {
	c.Evals(1)
	var un []byte
	if !try1(c, "Unpack", b, func() { un = g7.Unpack(append([]byte(nil), b...)) }) {
		return
	}
	acc := ref.UnpackAcceptable(b)
	if !inList(un, acc) {
		kind := "unpack-octets"
		if len(un) < len(acc[0]) {
			kind = "unpack-drops-septet"
		}
		c.Failf(kind, "Unpack(%s) = %s (n=%d), reference bit stream gives %s (n=%d)", hx(b), hx(un), len(un), hx(acc[0]), len(acc[0]))
	}
	c.Cover("octets/" + class)
}

// long-lived transformer objects, one set per worker process: a gateway keeps its encoder/decoder, it does not
// make one per message
var c08Live struct {
	dec, enc [2]transform.Transformer // [unpacked, packed]
	scratch  []byte
}

func dirty(r *fw.Rng, n int) []byte {
	b := make([]byte, n)
	switch r.Intn(3) {
	case 0:
		for i := range b {
			b[i] = 0xff
		}
	case 1:
		for i := range b {
			b[i] = 0xa5
		}
	default:
		copy(b, r.Bytes(n))
	}
	return b
}

// c08Reuse: a sequence of messages (decodable ones and refused ones) through the SAME transformer objects, written
// into destinations that are not zeroed (recycled buffers); every result must equal what the reference gives for
// this message alone.
func c08Reuse(c *fw.Case) {
	r := c.R
	tab := ref.GSM7()
	if c08Live.dec[0] == nil || r.Chance(1, 50) {
		c08Live.dec = [2]transform.Transformer{g7.GSM7(false).NewDecoder().Transformer, g7.GSM7(true).NewDecoder().Transformer}
		c08Live.enc = [2]transform.Transformer{g7.GSM7(false).NewEncoder().Transformer, g7.GSM7(true).NewEncoder().Transformer}
	}
	n := r.Range(2, 6)
	pat := ""
	for m := 0; m < n; m++ {
		// a septet sequence; one in three gets something no decoder may accept
		l := r.Range(1, 40)
		if r.Chance(1, 6) {
			l = r.Pick(127, 128, 129, 146, 147, 153, 160, 161, r.Range(40, 700)) // around the 128-octet chunk of transform.String and the 140-octet payload
		}
		s := make([]byte, l)
		for i := range s {
			for {
				s[i] = byte(r.Intn(128))
				if s[i] != 0x1b {
					break
				}
			}
			if r.Chance(1, 8) {
				s[i] = byte(r.Pick(0x00, 0x0d, 0x40, 0x7f, 0x20))
			}
		}
		// characters of the extension table (two septets; the euro sign is three octets of UTF-8)
		for i := 0; i+1 < l; i++ {
			if r.Chance(1, 12) {
				s[i], s[i+1] = 0x1b, byte(r.Pick(0x65, 0x65, 0x14, 0x28, 0x29, 0x2f, 0x3c, 0x3d, 0x3e, 0x40))
				i++
			}
		}
		if r.Chance(1, 40) {
			// a source below 4096 octets whose text is above: the fixed buffers of transform.Writer / transform.Reader
			l = r.Range(2049, 2600)
			s = make([]byte, l)
			for i := range s {
				s[i] = byte(r.Pick(0x10, 0x12, 0x13, 0x14, 0x15, 0x16, 0x17, 0x18, 0x19)) // Greek capitals: two octets of UTF-8 each
			}
		}
		refused := r.Chance(1, 3)
		if refused {
			// after a decodable prefix: ESC + a code outside the extension table, or a dangling ESC at the end
			k := r.Intn(l)
			if r.Bool() && k+1 < l {
				s[k], s[k+1] = 0x1b, 0x41
			} else {
				s[l-1] = 0x1b
			}
		}
		text, decodable := tab.Decode(s)
		packedMode := r.Intn(2)
		wire := s
		if packedMode == 1 {
			wire = ref.Pack(s)
		}
		c.Evals(1)
		// (1) decode through the long-lived decoder, destination dirty and larger than needed
		dst := dirty(r, 4*len(s)+16)
		var nd, ns int
		var derr error
		if !try1(c, "reused Decoder.Transform", wire, func() {
			c08Live.dec[packedMode].Reset()
			nd, ns, derr = c08Live.dec[packedMode].Transform(dst, append([]byte(nil), wire...), true)
		}) {
			return
		}
		// what a decoder made for this message alone says
		fresh, _, ferr := transform.Bytes(g7.GSM7(packedMode == 1).NewDecoder(), append([]byte(nil), wire...))
		if (derr == nil) != (ferr == nil) || (derr == nil && (string(dst[:nd]) != string(fresh) || ns != len(wire))) {
			c.Failf("entrypoints-disagree/reused-decoder", "message %d of a sequence (%s) through one decoder object: Transform = (%q, nSrc=%d of %d, %v); a decoder made for this message alone gives (%q, %v); input %s packed=%v",
				m, pat, dst[:nd], ns, len(wire), derr, fresh, ferr, hx(wire), packedMode == 1)
			return
		}
		// the other stream entry points of golang.org/x/text on the same decoder object: String() (feeds 128-octet
		// chunks first) and transform.Reader (feeds what it has read so far) must say what Bytes() says
		var viaString string
		var serr error
		if !try1(c, "Decoder.String", wire, func() { viaString, _, serr = transform.String(c08Live.dec[packedMode], string(wire)) }) {
			return
		}
		var viaReader []byte
		var rerr error
		if !try1(c, "transform.Reader(Decoder)", wire, func() {
			viaReader, rerr = io.ReadAll(transform.NewReader(&dripReader{b: append([]byte(nil), wire...), n: 1 + r.Intn(200)}, c08Live.dec[packedMode]))
		}) {
			return
		}
		if (serr == nil) != (ferr == nil) || (rerr == nil) != (ferr == nil) || (ferr == nil && (viaString != string(fresh) || string(viaReader) != string(fresh))) {
			c.Failf("entrypoints-disagree/decoder-streams", "message %d (%s), %d octets, packed=%v: Bytes = (%q, %v), String = (%q, %v), transform.Reader = (%q, %v); input %s",
				m, pat, len(wire), packedMode == 1, fresh, ferr, viaString, serr, viaReader, rerr, hx(wire))
			return
		}
		if decodable && !(packedMode == 1 && ref.EndAmbiguous(s)) && (derr != nil || string(dst[:nd]) != text) {
			c.Failf("reused-decoder-text", "message %d (%s): septets %s (text %q) decoded through a long-lived decoder as (%q, %v)", m, pat, hx(s), text, dst[:nd], derr)
			return
		}
		if !decodable && derr == nil && packedMode == 0 {
			c.Failf("reused-decoder-accepts-invalid", "message %d (%s): septets %s are outside the alphabet but the long-lived decoder returned %q", m, pat, hx(s), dst[:nd])
			return
		}
		// (2) encode the text through the long-lived encoder into a dirty destination
		if re, ok := tab.Encode(text); decodable && ok && bytes.Equal(re, s) {
			want := s
			if packedMode == 1 {
				want = ref.Pack(s)
			}
			out := dirty(r, len(want)+r.Range(0, 9))
			var ne, nsrc int
			var eerr error
			if !try1(c, "reused Encoder.Transform", []byte(text), func() {
				c08Live.enc[packedMode].Reset()
				ne, nsrc, eerr = c08Live.enc[packedMode].Transform(out, []byte(text), true)
			}) {
				return
			}
			if eerr != nil || !bytes.Equal(out[:ne], want) || nsrc != len(text) {
				c.Failf("entrypoints-disagree/reused-encoder", "message %d (%s): Encoder.Transform of %q into a destination that was not zeroed = (%s, nSrc=%d of %d, %v), reference %s (packed=%v)",
					m, pat, text, hx(out[:ne]), nsrc, len(text), eerr, hx(want), packedMode == 1)
				return
			}
			var encString string
			var encReader []byte
			var e3, e4 error
			if !try1(c, "Encoder.String", []byte(text), func() { encString, _, e3 = transform.String(c08Live.enc[packedMode], text) }) {
				return
			}
			if !try1(c, "transform.Reader(Encoder)", []byte(text), func() {
				encReader, e4 = io.ReadAll(transform.NewReader(&dripReader{b: []byte(text), n: 1 + r.Intn(200)}, c08Live.enc[packedMode]))
			}) {
				return
			}
			// transform.Reader holds the source in a 4096-octet buffer: a longer message is refused there ("short source
			// buffer"), which is an honest answer; a different text with a nil error is not
			readerRefusal := e4 != nil && len(text) >= 4096
			if e3 != nil || (e4 != nil && !readerRefusal) || encString != string(want) || (e4 == nil && !bytes.Equal(encReader, want)) {
				c.Failf("entrypoints-disagree/encoder-streams", "message %d (%s), text %q (%d octets of UTF-8), packed=%v: reference %s, String = (%s, %v), transform.Reader = (%s, %v)",
					m, pat, text, len(text), packedMode == 1, hx(want), hx([]byte(encString)), e3, hx(encReader), e4)
				return
			}
			// transform.Writer over the encoder, the text arriving in two pieces (every cut of a short text, some cuts of
			// a long one: pieces end inside characters)
			cuts := []int{r.Intn(len(text) + 1), r.Intn(len(text) + 1)}
			if len(text) <= 24 {
				cuts = cuts[:0]
				for k := 0; k <= len(text); k++ {
					cuts = append(cuts, k)
				}
			}
			for _, k := range cuts {
				var wb bytes.Buffer
				var w1, w2, ce error
				if !try1(c, "transform.Writer(Encoder)", []byte(text), func() {
					w := transform.NewWriter(&wb, c08Live.enc[packedMode])
					_, w1 = w.Write([]byte(text[:k]))
					_, w2 = w.Write([]byte(text[k:]))
					ce = w.Close()
				}) {
					return
				}
				if len(text) < 4096 && (w1 != nil || w2 != nil || ce != nil || !bytes.Equal(wb.Bytes(), want)) {
					c.Failf("entrypoints-disagree/encoder-writer", "message %d (%s): transform.Writer over the encoder, text %q written as %d + %d octets, gives (%s, write errs %v / %v, close err %v), reference %s (packed=%v)",
						m, pat, text, k, len(text)-k, hx(wb.Bytes()), w1, w2, ce, hx(want), packedMode == 1)
					return
				}
			}
			// the recycled-buffer idiom: transform.Append(t, buf[:0], src)
			if cap(c08Live.scratch) < len(want)+8 {
				c08Live.scratch = dirty(r, 2*len(want)+64)
			}
			var app []byte
			if !try1(c, "transform.Append", []byte(text), func() {
				app, _, eerr = transform.Append(c08Live.enc[packedMode], c08Live.scratch[:0], []byte(text))
			}) {
				return
			}
			if eerr != nil || !bytes.Equal(app, want) {
				c.Failf("entrypoints-disagree/reused-encoder-append", "message %d (%s): transform.Append(encoder, recycled[:0], %q) = (%s, %v), reference %s (packed=%v)", m, pat, text, hx(app), eerr, hx(want), packedMode == 1)
				return
			}
			if cap(app) >= len(app) {
				c08Live.scratch = app[:cap(app)] // keep recycling the same (now dirty) buffer
			}
			// a destination that is too small: whatever is handed out now plus what the following call hands out is the
			// message (a transformer may write nothing and say ErrShortDst, or hand the result out in pieces)
			if len(want) > 1 {
				small := dirty(r, r.Intn(len(want)))
				var e2 error
				var n2, n3 int
				try1(c, "Encoder.Transform short dst", []byte(text), func() { n2, _, e2 = c08Live.enc[packedMode].Transform(small, []byte(text), true) })
				if e2 == nil {
					c.Failf("reused-encoder-short-dst", "Transform into %d octets (needs %d) returned no error (%s)", len(small), len(want), hx(small[:n2]))
					return
				}
				big := dirty(r, len(want)+4)
				try1(c, "Encoder.Transform retry", []byte(text), func() { n3, _, e2 = c08Live.enc[packedMode].Transform(big, []byte(text), true) })
				if got := append(append([]byte(nil), small[:n2]...), big[:n3]...); e2 != nil || !bytes.Equal(got, want) {
					c.Failf("entrypoints-disagree/reused-encoder-retry", "message %d (%s): a short destination (%d octets handed out) and the following call (%d octets) give (%s, %v), reference %s", m, pat, n2, n3, hx(got), e2, hx(want))
					return
				}
			}
		}
		if decodable {
			// the same for the decoder
			small := dirty(r, r.Intn(len(text)+1))
			var n2, n3 int
			var e2 error
			try1(c, "Decoder.Transform short dst", wire, func() { n2, _, e2 = c08Live.dec[packedMode].Transform(small, append([]byte(nil), wire...), true) })
			got := append([]byte(nil), small[:n2]...)
			if e2 != nil {
				big := dirty(r, len(text)+8)
				try1(c, "Decoder.Transform retry", wire, func() { n3, _, e2 = c08Live.dec[packedMode].Transform(big, append([]byte(nil), wire...), true) })
				got = append(got, big[:n3]...)
			}
			if !(packedMode == 1 && ref.EndAmbiguous(s)) && (e2 != nil || string(got) != text) {
				c.Failf("entrypoints-disagree/reused-decoder-retry", "message %d (%s): a short destination and the following call decode %s as (%q, %v), reference %q", m, pat, hx(wire), got, e2, text)
				return
			}
			// the fixed-buffer driver: transform.Writer (4096-octet buffers, Close must return)
			var wbuf bytes.Buffer
			var werr, cerr error
			if !try1(c, "transform.Writer(Decoder)", wire, func() {
				w := transform.NewWriter(&wbuf, c08Live.dec[packedMode])
				_, werr = w.Write(append([]byte(nil), wire...))
				cerr = w.Close()
			}) {
				return
			}
			if !(packedMode == 1 && ref.EndAmbiguous(s)) && (werr != nil || cerr != nil || wbuf.String() != text) {
				c.Failf("entrypoints-disagree/decoder-writer", "message %d (%s): transform.Writer over the decoder gives (%q, write err %v, close err %v), reference %q; input %s", m, pat, wbuf.Bytes(), werr, cerr, text, hx(wire))
				return
			}
		}
		pat += map[bool]string{true: "x", false: "v"}[refused] + map[int]string{0: "u", 1: "p"}[packedMode]
	}
	// two transformer objects of the same kind at work at the same time (two connections): A is given a destination
	// that is too small, B transforms another message completely, then A is given room. Neither may see the other.
	{
		mode := r.Intn(2)
		ta, tb := "first message, somewhat longer: 0123456789", "second [one]"
		if r.Bool() {
			ta, tb = tb, ta
		}
		sa, _ := tab.Encode(ta)
		sb, _ := tab.Encode(tb)
		wa, wb := sa, sb
		if mode == 1 {
			wa, wb = ref.Pack(sa), ref.Pack(sb)
		}
		for _, enc := range []bool{true, false} {
			var A, B transform.Transformer
			var inA, inB, wantA, wantB []byte
			if enc {
				A, B = g7.GSM7(mode == 1).NewEncoder().Transformer, g7.GSM7(mode == 1).NewEncoder().Transformer
				inA, inB, wantA, wantB = []byte(ta), []byte(tb), wa, wb
			} else {
				A, B = g7.GSM7(mode == 1).NewDecoder().Transformer, g7.GSM7(mode == 1).NewDecoder().Transformer
				inA, inB, wantA, wantB = wa, wb, []byte(ta), []byte(tb)
			}
			c.Evals(1)
			var gotA, gotB []byte
			var eA, eB error
			if !try1(c, "two transformers interleaved", inA, func() {
				small := dirty(r, r.Intn(len(wantA)))
				n1, _, e1 := A.Transform(small, append([]byte(nil), inA...), true)
				gotA = append(gotA, small[:n1]...)
				bigB := dirty(r, len(wantB)+8)
				nb, _, e := B.Transform(bigB, append([]byte(nil), inB...), true)
				gotB, eB = bigB[:nb], e
				if e1 != nil {
					bigA := dirty(r, len(wantA)+8)
					n2, _, e2 := A.Transform(bigA, append([]byte(nil), inA...), true)
					gotA, eA = append(gotA, bigA[:n2]...), e2
				}
			}) {
				return
			}
			if eA != nil || eB != nil || !bytes.Equal(gotA, wantA) || !bytes.Equal(gotB, wantB) {
				c.Failf("entrypoints-disagree/two-transformers-interleaved", "two %s objects (packed=%v) used in turn: A (short destination first) gave (%s, %v), reference %s; B gave (%s, %v), reference %s",
					map[bool]string{true: "encoder", false: "decoder"}[enc], mode == 1, hx(gotA), eA, hx(wantA), hx(gotB), eB, hx(wantB))
				return
			}
		}
	}
	c.Cover("reuse/" + pat[:4])
}

func init() {
	fw.Register(&fw.Prop{
		ID:        "C08",
		Technique: "runtime monitor: exhaustive differential oracle against a code-point-keyed TS 23.038 table and a bit-stream definition of septet packing; cross-entry-point agreement monitor",
		Rule: "alphabet: all 1,114,112 code points and all 65,536 septet pairs; packing: all septet sequences of length 0..3, all sequences of length <= 8 (quick: <= 6) over {00,01,0d,1b,3f,40,7f}, block-boundary triples for lengths 1..40, random sequences to 2000 septets, single-bit wiring for lengths 0..64; arbitrary octet strings through Unpack; sequences of decodable and refused messages through long-lived encoder/decoder objects writing into destinations that are not zeroed (Transform, transform.Append into a recycled buffer, short destination then retry), and the same messages through String() and transform.Reader fed in pieces, lengths around the 128-octet chunk size and the 140-octet payload; " +
			"distinct_nontrivial = distinct (stage, class) keys where class = code-point block / first-septet / length / boundary position, each judged by the reference",
		Assumptions: []string{
			"spec/gsm7_table.json (137 characters by code point, written from 3GPP TS 23.038 §6.2.1/§6.2.1.1) is trusted base; the standard is not in /repo/doc",
			"carve-outs exactly as in the property: final CR, or final 0x00 after a septet < 0x40, when the septet count is a multiple of 8",
		},
		Stages: []*fw.Stage{
			{
				Name: "codepoints", Exhaustive: "all 1,114,112 code points through Encode/Decode/validators",
				N: func(fw.Tier) uint64 { return 0x110000 / 1024 },
				Run: func(c *fw.Case) {
					tab := ref.GSM7()
					hits := 0
					for cp := rune(c.Idx * 1024); cp < rune((c.Idx+1)*1024); cp++ {
						s := string(cp) // surrogates and out-of-range become U+FFFD, which the alphabet lacks
						want, ok := tab.Encode(s)
						var got []byte
						var err error
						if !try1(c, "Encode", []byte(s), func() { got, err = g7.Encode(s) }) {
							continue
						}
						c.Evals(1)
						if ok != (err == nil) || (ok && !bytes.Equal(got, want)) {
							c.Failf("alphabet-encode", "Encode(U+%04X) = (%s, %v), TS 23.038 table: (%s, in=%v)", cp, hx(got), err, hx(want), ok)
							continue
						}
						valid := g7.IsValidGSM7String(s)
						inv := g7.ValidateGSM7String(s)
						if valid != ok || (len(inv) == 0) != ok || datacoding.CanEncodeByGSM7(s) != ok {
							c.Failf("entrypoints-disagree/validate-string", "U+%04X: Encode ok=%v, IsValidGSM7String=%v, ValidateGSM7String=%v, CanEncodeByGSM7=%v", cp, ok, valid, inv, datacoding.CanEncodeByGSM7(s))
						}
						if ok {
							hits++
							dec, derr := g7.Decode(got)
							if derr != nil || string(dec) != s {
								c.Failf("alphabet-decode", "Decode(Encode(U+%04X)=%s) = (%q, %v)", cp, hx(got), dec, derr)
							}
							ue, uerr := datacoding.GSM7Unpacked(s).Encode()
							if uerr != nil || !bytes.Equal(ue, want) {
								c.Failf("entrypoints-disagree/unpacked-codec-encode", "GSM7Unpacked(U+%04X).Encode = (%s,%v), reference %s", cp, hx(ue), uerr, hx(want))
							}
						} else {
							if _, uerr := datacoding.GSM7Unpacked(s).Encode(); uerr == nil {
								c.Failf("entrypoints-disagree/unpacked-codec-encode", "GSM7Unpacked(U+%04X).Encode accepted a character outside the alphabet", cp)
							}
							if _, perr := datacoding.GSM7Packed(s).Encode(); perr == nil {
								c.Failf("entrypoints-disagree/packed-codec-encode", "GSM7Packed(U+%04X).Encode accepted a character outside the alphabet", cp)
							}
						}
					}
					c.Cover(fmt.Sprintf("codepoints/block%04d/in-alphabet=%d", c.Idx, hits))
				},
			},
			{
				Name: "pairs", Exhaustive: "all 256 x 256 (first, second) septet pairs through Decode and the unpacked decoders",
				N: func(fw.Tier) uint64 { return 256 },
				Run: func(c *fw.Case) {
					tab := ref.GSM7()
					a := byte(c.Idx)
					okc := 0
					for b := 0; b < 256; b++ {
						in := []byte{a, byte(b)}
						want, ok := tab.Decode(in)
						var got []byte
						var err error
						if !try1(c, "Decode", in, func() { got, err = g7.Decode([]byte{a, byte(b)}) }) {
							continue
						}
						c.Evals(1)
						if ok != (err == nil) || (ok && string(got) != want) {
							c.Failf("alphabet-decode-pair", "Decode(%s) = (%q, %v), TS 23.038 table: (%q, ok=%v)", hx(in), got, err, want, ok)
						}
						d2, _, e2 := transform.Bytes(g7.GSM7(false).NewDecoder(), []byte{a, byte(b)})
						inval := g7.ValidateGSM7Buffer([]byte{a, byte(b)})
						if (e2 == nil) != (err == nil) || (err == nil && !bytes.Equal(d2, got)) || (len(inval) == 0) != (err == nil) {
							c.Failf("entrypoints-disagree/unpacked-decode", "pair %s: Decode=(%q,%v) transformer=(%q,%v) ValidateGSM7Buffer=%s", hx(in), got, err, d2, e2, hx(inval))
						}
						if ok {
							okc++
						}
					}
					// single septet too
					in := []byte{a}
					want, ok := tab.Decode(in)
					got, err := g7.Decode([]byte{a})
					if ok != (err == nil) || (ok && string(got) != want) {
						c.Failf("alphabet-decode-single", "Decode(%s) = (%q, %v), table: (%q, ok=%v)", hx(in), got, err, want, ok)
					}
					c.Cover(fmt.Sprintf("pairs/first=%02x/decodable=%d", a, okc))
				},
			},
			{
				Name: "short", Exhaustive: "all septet sequences of length 0..3 (1+128+128^2+128^3)",
				N: func(fw.Tier) uint64 { return 1 + 128 + 128*128 },
				Run: func(c *fw.Case) {
					switch {
					case c.Idx == 0:
						c08Septets(c, []byte{}, "len0")
					case c.Idx <= 128:
						c08Septets(c, []byte{byte(c.Idx - 1)}, "len1")
					default:
						k := c.Idx - 129
						a, b := byte(k/128), byte(k%128)
						c08Septets(c, []byte{a, b}, "len2")
						for x := 0; x < 128; x++ {
							c08Septets(c, []byte{a, b, byte(x)}, "len3")
						}
					}
				},
			},
			{
				Name: "alphabet7", Exhaustive: "all sequences of length 4..8 (quick: 4..6) over the branch-driving alphabet {00,01,0d,1b,3f,40,7f}",
				N: func(t fw.Tier) uint64 {
					if t == fw.Thorough {
						return 7 * 7 * 7 * 7 * 7 // prefix of 5, case expands the remaining positions
					}
					return 7 * 7 * 7
				},
				Run: func(c *fw.Case) {
					maxLen, pre := 6, 3
					if c.Tier == fw.Thorough {
						maxLen, pre = 8, 5
					}
					prefix := make([]byte, pre)
					k := c.Idx
					for i := 0; i < pre; i++ {
						prefix[i] = c08alpha[k%7]
						k /= 7
					}
					if c.Idx == 0 {
						// lengths shorter than the prefix are covered once here (length 4 in thorough)
						var rec func(s []byte, n int)
						rec = func(s []byte, n int) {
							if len(s) == n {
								c08Septets(c, append([]byte(nil), s...), fmt.Sprintf("a7/len%d", n))
								return
							}
							for _, a := range c08alpha {
								rec(append(s, a), n)
							}
						}
						for n := 4; n < pre; n++ {
							rec(nil, n)
						}
					}
					var rec func(s []byte)
					rec = func(s []byte) {
						if len(s) >= 4 && len(s) >= pre {
							c08Septets(c, append([]byte(nil), s...), fmt.Sprintf("a7/len%d", len(s)))
						}
						if len(s) == maxLen {
							return
						}
						for _, a := range c08alpha {
							rec(append(s, a))
						}
					}
					rec(prefix)
				},
			},
			{
				Name: "boundaries", Exhaustive: "for every length 1..40: every assignment from the 7-letter alphabet to the three septets around every 8-septet block boundary",
				N: func(t fw.Tier) uint64 { return 40 * map[fw.Tier]uint64{fw.Quick: 3, fw.Thorough: 200}[t] },
				Run: func(c *fw.Case) {
					n := int(c.Idx%40) + 1
					base := c.R.Bytes(n)
					for i := range base {
						base[i] &= 0x7f
					}
					for bnd := 8; bnd-2 < n; bnd += 8 {
						pos := []int{bnd - 2, bnd - 1, bnd}
						for _, a := range c08alpha {
							for _, b := range c08alpha {
								for _, d := range c08alpha {
									s := append([]byte(nil), base...)
									for k, v := range []byte{a, b, d} {
										if pos[k] < n {
											s[pos[k]] = v
										}
									}
									c08Septets(c, s, fmt.Sprintf("bnd/len%d/at%d", n, bnd))
								}
							}
						}
					}
					if n < 7 {
						c08Septets(c, base, fmt.Sprintf("bnd/len%d/none", n))
					}
				},
			},
			{
				Name: "random", N: q(300000, 40000000),
				Run: func(c *fw.Case) {
					n := c.R.Range(0, 200)
					if c.R.Chance(1, 10) {
						n = c.R.Range(200, 2000)
					}
					s := c.R.Bytes(n)
					for i := range s {
						s[i] &= 0x7f
						if c.R.Chance(1, 6) {
							s[i] = c08alpha[c.R.Intn(7)]
						}
					}
					c08Septets(c, s, fmt.Sprintf("rand/len%%8=%d", n%8))
					c.Echo("Pack/Unpack/Decode", func() string {
						p := g7.Pack(append([]byte(nil), s...))
						u := g7.Unpack(append([]byte(nil), p...))
						d, err := g7.Decode(append([]byte(nil), s...))
						pd, perr := datacoding.GSM7Packed(append([]byte(nil), p...)).Decode()
						return fmt.Sprintf("%s %s %s %v %s %v", digestBytes(p), digestBytes(u), digestBytes(d), err != nil, digestBytes(pd), perr != nil)
					})
					b := c.R.Bytes(c.R.Range(0, 64))
					if c.R.Chance(1, 3) {
						for i := range b {
							if c.R.Chance(1, 3) {
								b[i] = 0
							}
						}
					}
					c08Octets(c, b, fmt.Sprintf("octets/len%%7=%d", len(b)%7))
				},
			},
			{Name: "reuse", N: q(60000, 20000000), Run: c08Reuse},
			{
				Name: "wiring", Exhaustive: "single-bit wiring: every bit of every septet sequence length 0..64 set alone",
				N: func(fw.Tier) uint64 { return 65 },
				Run: func(c *fw.Case) {
					n := int(c.Idx)
					c08Septets(c, make([]byte, n), fmt.Sprintf("wire/len%d/zero", n))
					for i := 0; i < n; i++ {
						for k := 0; k < 7; k++ {
							s := make([]byte, n)
							s[i] = 1 << uint(k)
							c08Septets(c, s, fmt.Sprintf("wire/len%d", n))
						}
					}
					// octet-side wiring through Unpack
					m := (7*n + 7) / 8
					for i := 0; i < m; i++ {
						for k := 0; k < 8; k++ {
							b := make([]byte, m)
							b[i] = 1 << uint(k)
							c08Octets(c, b, fmt.Sprintf("wire-octets/len%d", m))
						}
					}
				},
			},
		},
	})
}
