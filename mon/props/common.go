package props

import (
	"encoding/binary"
	"encoding/hex"
	"fmt"
	"strings"

	sms "github.com/hujm2023/go-sms-protocol"

	"verifmon/fw"
	"verifmon/pdus"
)

func q(n, t uint64) func(fw.Tier) uint64 {
	return func(tier fw.Tier) uint64 {
		if tier == fw.Thorough {
			return t
		}
		return n
	}
}

func hx(b []byte) string {
	if len(b) > 400 {
		return fmt.Sprintf("%s…(%d octets)", hex.EncodeToString(b[:400]), len(b))
	}
	return hex.EncodeToString(b)
}

// encode calls p.IEncode under panic capture. sig is non-empty if it panicked.
func encode(c *fw.Case, p sms.PDU) (b []byte, err error, psig, pdetail string) {
	arm(c, 1<<16)
	panicked, val, stack := fw.Try(func() { b, err = p.IEncode() })
	disarm(c)
	if panicked {
		return nil, nil, fw.PanicSig(val, stack), fmt.Sprintf("panic: %v\n%s", val, stack)
	}
	return b, err, "", ""
}

// decode calls p.IDecode under panic capture.
func decode(c *fw.Case, p sms.PDU, b []byte) (err error, psig, pdetail string) {
	// the image is handed over the way a receive loop does it: a window of a larger buffer whose octets behind the
	// window belong to the next frame. A decoder that looks beyond len(b) reads them (slicing is bounded by cap).
	view := spareView(b)
	arm(c, len(b))
	panicked, val, stack := fw.Try(func() { err = p.IDecode(view) })
	disarm(c)
	copy(b, view) // what the decoder did to its input stays visible to the caller's own checks
	if panicked {
		return nil, fw.PanicSig(val, stack), fmt.Sprintf("panic: %v\n%s", val, stack)
	}
	return err, "", ""
}

// arm sets the logical step budget for the next library call: 64*(n+1024) ticks for an
// n-octet input (DESIGN 3.3). A loop that makes no progress exhausts it and is unwound by a
// StepBudgetExceeded panic raised inside the library frame that spins.
func arm(c *fw.Case, n int) {
	if c.W.Hooks != nil {
		c.W.Hooks.SetBudget(64 * uint64(n+1024))
	}
}

func disarm(c *fw.Case) {
	if c.W.Hooks != nil {
		c.W.Hooks.SetBudget(0)
	}
}

func be32(b []byte) uint32 {
	if len(b) < 4 {
		return 0
	}
	return binary.BigEndian.Uint32(b)
}

// allowedNormalisation reports whether the difference between the generated values and the
// PDU after IEncode is one of the documented receiver normalisations.
func allowedNormalisation(t *pdus.Type, before, after *pdus.Values) (ok bool, bad []string) {
	for _, d := range pdus.Diff(t, before, after) {
		if t.Key() == "cmpp20.PduSubmit/CMPP_SUBMIT" && before.U("Pk_total") == 0 && before.U("Pk_number") == 0 &&
			after.U("Pk_total") == 1 && after.U("Pk_number") == 1 && (strings.HasPrefix(d, "Pk_total") || strings.HasPrefix(d, "Pk_number")) {
			continue
		}
		bad = append(bad, d)
	}
	return len(bad) == 0, bad
}

// firstField names the first field in which diffs were found ("-" if none).
func firstField(diffs []string) string {
	if len(diffs) == 0 {
		return "-"
	}
	d := diffs[0]
	for i := 0; i < len(d); i++ {
		if d[i] == ':' || d[i] == '(' {
			return d[:i]
		}
	}
	return d
}

func typeIdx(ts *pdus.Tables, idx uint64) *pdus.Type { return ts.Types[int(idx%uint64(len(ts.Types)))] }

// libTypeIdx is typeIdx with library-only struct fields included.
func libTypeIdx(ts *pdus.Tables, idx uint64) *pdus.Type { return typeIdx(ts, idx).Lib() }

// canonImage describes an encoded PDU so that equal PDUs compare equal: length, the mandatory part, and the optional
// parameters as a set (they are emitted in map order).
func canonImage(t *pdus.Type, b []byte, err error) string {
	if err != nil {
		return "err"
	}
	if m := pdus.MandatoryLen(t, b); m >= 0 && m <= len(b) {
		if tail, terr := tlvTail(b[m:]); terr == nil {
			return fmt.Sprintf("%d|%s|%016x", len(b), digestBytes(b[:m]), fw.HashStr(tail))
		}
	}
	return digestBytes(b)
}

// echoCodec registers the two questions every PDU case can ask again later: what does this value encode to, and
// what does this image decode to (fresh objects both times).
func echoCodec(c *fw.Case, t *pdus.Type, v *pdus.Values, img []byte) {
	keep := append([]byte(nil), img...)
	c.Echo("IEncode+IDecode/"+t.Key(), func() string {
		b, err := pdus.Build(t, v).IEncode()
		q := t.New()
		derr := q.IDecode(append([]byte(nil), keep...))
		d := "err"
		if derr == nil {
			d = fmt.Sprintf("%016x", fw.HashStr(pdus.Describe(t, pdus.Extract(t, q))))
		}
		return canonImage(t, b, err) + " / " + d
	})
}

// refusedEncodeFirst makes the library go through an encoder's error path (a value one octet too long for its
// fixed-width slot, in a random PDU type) before the call that is being judged: whatever an error path leaves behind —
// a pooled writer that keeps its error, a buffer not given back — must not reach the next, unrelated call.
func refusedEncodeFirst(c *fw.Case) {
	ts := pdus.Load()
	cands := oversizeCandidates(ts)
	oc := cands[c.R.Intn(len(cands))]
	v, _ := pdus.Gen(oc.t, c.R, -1, 0)
	f := oc.t.Fields[oc.field]
	big := nonNul(c.R, f.W+1+c.R.Intn(8))
	if oc.elem {
		v.F[f.Spec] = [][]byte{big}
		v.F[f.Count] = uint64(1)
	} else {
		v.F[f.Spec] = big
	}
	arm(c, 1<<16)
	fw.Try(func() { _, _ = pdus.Build(oc.t, v).IEncode() })
	disarm(c)
	c.Count("refused_encodes_first", 1)
}

// spareView returns a copy of b that is a window of a larger buffer: 24 octets of a plausible next frame follow it.
func spareView(b []byte) []byte {
	big := make([]byte, len(b), len(b)+24)
	copy(big, b)
	tail := big[len(b):cap(big)]
	copy(tail, "\x00\x00\x00\x18\x00\x00\x00\x04NEXTFRAME\x00\x01\x00\x02ab\x00")
	return big
}

func min(a, b int) int {
	if a < b {
		return a
	}
	return b
}
