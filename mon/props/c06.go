package props

import "verifmon/fw"

// C06 — splitting preserves content; reported coding; single-SMS texts are returned as one part.
func init() {
	fw.Register(&fw.Prop{
		ID:        "C06",
		Technique: "runtime monitor: reference-decoder oracle over split results (headers stripped, payloads concatenated, decoded with an independent decoder of the reported coding; packed GSM-7 unpacked with handset-style septet counts)",
		Rule: "texts built to hit the single/multi thresholds (140 octets / 160 septets) and multiples of the per-part capacity (134 / 153) +-3, with multi-unit characters (GSM-7 escapes, surrogate pairs, GB18030 2/4-octet characters) started at every offset -3..+3 from part boundaries, up to and beyond 255 parts, plus random texts; x CMPP {0,8,9,15, invalid 1,3,4,25,200} / SMPP {0,1,3,8,99, invalid 2,4,9,255} x reference byte; " +
			"entry points EncodeCMPPContentAndSplit, EncodeSMPPContentAndSplit and Build with one candidate; distinct_nontrivial = distinct (entry, reported coding, single | multi with part-count bucket) outcomes judged",
		Assumptions: []string{
			"'can represent' for Latin-1 and GB18030 is the library codec's own verdict (C05 polices it); ASCII, UCS-2 and GSM-7 use the reference models",
			"reported coding = requested if the number is supported and can represent the text, else UCS-2 (an unsupported number must be reported as UCS-2)",
		},
		Stages: []*fw.Stage{
			{Name: "split", N: q(400000, 10000000), Run: func(c *fw.Case) { splitCase(c, judgeC06) }},
		},
	})
}
