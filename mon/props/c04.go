package props

import (
	"bytes"
	"encoding/binary"
	"errors"
	"fmt"
	"io"
	"os"
	"sort"

	"github.com/hujm2023/go-sms-protocol/codec"

	"verifmon/fw"
)

// C04 — stream framing: sequential cursor model over a known stream, for every arrival
// schedule and fault position, both codecs, both extractors.

// feedConn is the harness side of codec.ConnReader for the non-blocking extractor: bytes become
// visible only when fed; a Peek view is invalidated (overwritten with 0xEE) at the next feed.
type feedConn struct {
	buf   []byte // visible, unconsumed
	peeks int
}

func (f *feedConn) feed(chunk []byte) {
	nb := make([]byte, len(f.buf)+len(chunk))
	copy(nb, f.buf)
	copy(nb[len(f.buf):], chunk)
	for i := range f.buf { // old views die
		f.buf[i] = 0xEE
	}
	f.buf = nb
}
func (f *feedConn) Read(p []byte) (int, error) {
	if len(f.buf) == 0 {
		return 0, io.EOF
	}
	n := copy(p, f.buf)
	f.buf = f.buf[n:]
	return n, nil
}
func (f *feedConn) Peek(n int) ([]byte, error) {
	f.peeks++
	if n < 0 {
		return nil, errors.New("bufio: negative count")
	}
	if n > len(f.buf) {
		return f.buf, io.EOF
	}
	return f.buf[:n], nil
}
func (f *feedConn) Discard(n int) (int, error) {
	if n < 0 {
		return 0, errors.New("bufio: negative count")
	}
	if n > len(f.buf) {
		k := len(f.buf)
		f.buf = nil
		return k, io.EOF
	}
	f.buf = f.buf[n:]
	return n, nil
}
func (f *feedConn) Size() int { return len(f.buf) }

// chunkConn serves a stream in scheduled pieces to the blocking extractor and fails at faultAt.
type chunkConn struct {
	stream  []byte
	pos     int
	cuts    []int // ascending chunk ends
	faultAt int   // stream offset at which Read fails (len(stream) = clean end)
	fault   error
	reads   int
	onRead  func(nth int) // called at the start of every Read (nth = 1, 2, …); may block
	// errWithData: the Read that delivers the last octets before the fault returns them TOGETHER with the error,
	// which io.Reader allows ("a Reader returning a non-zero number of bytes at the end of the input stream may
	// return either err == EOF or err == nil")
	errWithData bool
	// transient: the failure is reported once (a read deadline that fired, EINTR, a proxy hiccup) and the stream
	// goes on delivering afterwards
	transient bool
	fired     bool
}

func (c *chunkConn) Read(p []byte) (int, error) {
	c.reads++
	if c.onRead != nil {
		c.onRead(c.reads)
	}
	if c.pos >= c.faultAt {
		if c.transient && !c.fired {
			c.fired = true
			c.faultAt = len(c.stream) + 1 // from now on the stream delivers to its end, then io.EOF
			return 0, c.fault
		}
		if c.transient {
			return 0, io.EOF
		}
		return 0, c.fault
	}
	end := c.faultAt
	if end > len(c.stream) {
		end = len(c.stream)
	}
	for _, k := range c.cuts {
		if k > c.pos {
			if k < end {
				end = k
			}
			break
		}
	}
	n := copy(p, c.stream[c.pos:end])
	c.pos += n
	if n == 0 && len(p) > 0 {
		if c.transient && c.fired {
			return 0, io.EOF
		}
		return 0, c.fault
	}
	if c.errWithData && c.pos >= c.faultAt {
		return n, c.fault
	}
	return n, nil
}
func (c *chunkConn) Peek(n int) ([]byte, error) { return nil, errors.New("not used by DecodeBlocked") }
func (c *chunkConn) Discard(n int) (int, error) { return 0, errors.New("not used by DecodeBlocked") }
func (c *chunkConn) Size() int                  { return 0 }

var errInjected = errors.New("verifmon: injected connection failure")

// one codec value per process, shared by every stream of every case — the way applications use them
var sharedCodecs = map[string]codec.Codec{"CMPPCodec": codec.NewCMPPCodec(), "SMPPCodec": codec.NewSMPPCodec()}

func codecs() map[string]codec.Codec { return sharedCodecs }

// genFrames builds 1..maxN frames; small=true keeps the stream short for exhaustive schedules.
func genFrames(r *fw.Rng, maxN int, small bool) [][]byte {
	n := r.Range(1, maxN)
	out := make([][]byte, n)
	for i := range out {
		var l int
		switch {
		case small:
			l = r.Pick(4, 4, 5, 8, 12, 16, 17)
		case r.Chance(1, 12):
			l = r.Pick(65535, 65536, 40000)
		case r.Chance(1, 8):
			// around the sizes buffers are made of: powers of two and a prefix more or less
			l = r.Pick(256, 512, 1024, 2048, 4096, 4096, 4096, 8192, 16384, 32768) + r.Range(-5, 5)
		case r.Chance(1, 4):
			l = r.Range(200, 3000)
		default:
			l = r.Range(4, 80)
		}
		f := make([]byte, l)
		copy(f, r.Bytes(l))
		// salt the body with things that look like length prefixes
		for k := 4; k+4 <= l; k += 4 {
			if r.Chance(1, 3) {
				binary.BigEndian.PutUint32(f[k:], uint32(r.Pick(0, 1, 3, 4, 5, 12, 16, l, l+1, 0x7fffffff)))
			}
		}
		binary.BigEndian.PutUint32(f, uint32(l))
		out[i] = f
	}
	return out
}

// runNonBlocking feeds stream in the given chunks and checks every Decode against the cursor model.
// badAt >= 0 marks the stream offset of a malformed prefix (value < 4).
func runNonBlocking(c *fw.Case, name string, cd codec.Codec, stream []byte, cuts []int, sched string) {
	if c.Failed() {
		return // this case is decided; on a broken tree every further call may allocate gigabytes (desynchronised prefixes)
	}
	conn := &feedConn{}
	cur, fed := 0, 0
	var got [][]byte
	bounds := append(append([]int(nil), cuts...), len(stream))
	fail := func(kind, format string, args ...any) {
		c.Failf("nonblocking-"+kind+"/"+name, "%s\nstream(%d)=%s\nchunk ends=%v consumed=%d fed=%d frames so far=%d", fmt.Sprintf(format, args...), len(stream), hx(stream), bounds, cur, fed, len(got))
	}
	for _, end := range bounds {
		if end > fed {
			conn.feed(stream[fed:end])
			fed = end
		}
		for iter := 0; iter < len(stream)+4; iter++ {
			before := conn.Size()
			var frame []byte
			var err error
			if p, val, st := fw.Try(func() { frame, err = cd.Decode(conn) }); p {
				fail(fw.PanicSig(val, st), "Decode panicked: %v\n%s", val, st)
				return
			}
			c.Evals(1)
			after := conn.Size()
			avail := fed - cur
			if before != avail {
				fail("harness", "harness cursor out of step: Size()=%d model=%d", before, avail)
				return
			}
			if avail < 4 {
				if !errors.Is(err, codec.ErrPacketNotComplete) || frame != nil || after != before {
					fail("incomplete-prefix", "with %d octets buffered Decode returned frame=%v err=%v, Size %d->%d; expected ErrPacketNotComplete and nothing consumed", avail, frame != nil, err, before, after)
					return
				}
				break
			}
			L := int(binary.BigEndian.Uint32(stream[cur:]))
			if L < 4 {
				if err == nil || errors.Is(err, codec.ErrPacketNotComplete) || len(frame) != 0 {
					fail("short-prefix", "length prefix %d: Decode returned frame(len %d) err=%v; expected an error other than 'incomplete' and no frame", L, len(frame), err)
				}
				c.Cover("nonblocking/" + name + "/short-prefix-refused")
				return // the stream is dead after a malformed prefix
			}
			if avail < L {
				if !errors.Is(err, codec.ErrPacketNotComplete) || frame != nil || after != before {
					fail("incomplete-frame", "frame of %d octets, %d buffered: Decode returned frame=%v err=%v, Size %d->%d; expected ErrPacketNotComplete and nothing consumed", L, avail, frame != nil, err, before, after)
					return
				}
				break
			}
			if err != nil {
				fail("complete-frame-error", "complete frame of %d octets buffered (%d available) but Decode returned %v", L, avail, err)
				return
			}
			cp := append([]byte(nil), frame...) // copy at once, as the Peek contract demands
			if !bytes.Equal(cp, stream[cur:cur+L]) {
				fail("wrong-frame", "Decode returned %d octets %s, expected the frame %s", len(cp), hx(cp), hx(stream[cur:cur+L]))
				return
			}
			if before-after != L {
				fail("wrong-consumption", "frame of %d octets returned but Size went %d->%d", L, before, after)
				return
			}
			got = append(got, cp)
			cur += L
		}
	}
	c.Sample(2, map[string]any{"extractor": "Decode", "codec": name, "stream": hx(stream), "chunk_ends": bounds, "frames_returned": len(got), "schedule": sched})
	c.Cover(fmt.Sprintf("nonblocking/%s/%s/frames%d", name, sched, len(got)))
}

// runBlocking serves the stream through chunkConn and checks the frames returned before the fault.
func runBlocking(c *fw.Case, name string, cd codec.Codec, stream []byte, frameEnds []int, cuts []int, faultAt int, fault error, sched string) {
	if c.Failed() {
		return // this case is decided; on a broken tree every further call may allocate gigabytes (desynchronised prefixes)
	}
	conn := &chunkConn{stream: stream, cuts: cuts, faultAt: faultAt, fault: fault, errWithData: c.R.Chance(1, 3)}
	if conn.errWithData {
		sched += "+err-with-data"
	}
	fail := func(kind, format string, args ...any) {
		c.Failf("blocking-"+kind+"/"+name, "%s\nstream(%d)=%s\nframe ends=%v chunk ends=%v fault at %d (%v)", fmt.Sprintf(format, args...), len(stream), hx(stream), frameEnds, cuts, faultAt, fault)
	}
	cur := 0
	nframes := 0
	type held struct {
		live []byte
		at   int
	}
	var kept []held
	defer func() {
		// DecodeBlocked hands out buffers of its own (not Peek views): frames the caller still holds must stay intact
		for i, h := range kept {
			if !bytes.Equal(h.live, stream[h.at:h.at+len(h.live)]) {
				fail("held-frame-changed", "frame %d returned earlier by DecodeBlocked now reads %s, was %s", i, hx(h.live), hx(stream[h.at:h.at+len(h.live)]))
				return
			}
		}
	}()
	for k := 0; k <= len(frameEnds)+1; k++ {
		var frame []byte
		var err error
		if p, val, st := fw.Try(func() { frame, err = cd.DecodeBlocked(conn) }); p {
			fail(fw.PanicSig(val, st), "DecodeBlocked panicked: %v\n%s", val, st)
			return
		}
		c.Evals(1)
		// model
		var L int
		short := false
		if faultAt-cur >= 4 && len(stream)-cur >= 4 {
			L = int(binary.BigEndian.Uint32(stream[cur:]))
			short = L < 4
		}
		complete := faultAt-cur >= 4 && !short && cur+L <= faultAt
		switch {
		case short:
			if err == nil || len(frame) != 0 {
				fail("short-prefix", "length prefix %d: DecodeBlocked returned frame(len %d) err=%v; expected an error and no frame", L, len(frame), err)
			}
			c.Cover("blocking/" + name + "/short-prefix-refused")
			return
		case complete:
			if err != nil {
				fail("complete-frame-error", "frame %d (%d octets) lies completely before the fault but DecodeBlocked returned %v", k, L, err)
				return
			}
			if !bytes.Equal(frame, stream[cur:cur+L]) {
				fail("wrong-frame", "DecodeBlocked returned %d octets %s, expected %s", len(frame), hx(frame), hx(stream[cur:cur+L]))
				return
			}
			kept = append(kept, held{frame, cur})
			cur += L
			nframes++
		default:
			if err == nil {
				fail("partial-frame", "the stream fails at %d inside the frame starting at %d, yet DecodeBlocked returned %d octets and no error", faultAt, cur, len(frame))
				return
			}
			if frame != nil && len(frame) > 0 {
				fail("frame-with-error", "DecodeBlocked returned %d octets together with error %v", len(frame), err)
			}
			kind := "eof"
			if faultAt != cur {
				kind = "midframe"
			}
			c.Sample(2, map[string]any{"extractor": "DecodeBlocked", "codec": name, "stream": hx(stream), "chunk_ends": cuts, "fault_at": faultAt, "fault": fmt.Sprint(fault), "frames_returned_before_error": nframes, "error": fmt.Sprint(err)})
			c.Cover(fmt.Sprintf("blocking/%s/%s/%s/%T", name, sched, kind, fault))
			return
		}
	}
}

// timeoutErr is what a net.Conn returns when a read deadline fires.
type timeoutErr struct{}

func (timeoutErr) Error() string   { return "verifmon: i/o timeout (injected)" }
func (timeoutErr) Timeout() bool   { return true }
func (timeoutErr) Temporary() bool { return true }

// runBlockingTransient: the connection reports a failure ONCE at faultAt (a deadline that fired mid-frame) and then
// goes on delivering. Whatever the extractor does with such an error — give up (the property's wording) or carry
// on — it must never hand out octets that are not exactly the next frame.
func runBlockingTransient(c *fw.Case, name string, cd codec.Codec, stream []byte, frameEnds []int, cuts []int, faultAt int, fault error) {
	if c.Failed() {
		return // this case is decided; on a broken tree every further call may allocate gigabytes (desynchronised prefixes)
	}
	conn := &chunkConn{stream: stream, cuts: cuts, faultAt: faultAt, fault: fault, transient: true}
	fail := func(kind, format string, args ...any) {
		c.Failf("blocking-"+kind+"/"+name, "%s\nstream(%d)=%s\nframe ends=%v chunk ends=%v one-off failure at %d (%v), the stream continues afterwards", fmt.Sprintf(format, args...), len(stream), hx(stream), frameEnds, cuts, faultAt, fault)
	}
	cur := 0
	for k := 0; k <= len(frameEnds)+1 && cur < len(stream); k++ {
		var frame []byte
		var err error
		if p, val, st := fw.Try(func() { frame, err = cd.DecodeBlocked(conn) }); p {
			fail(fw.PanicSig(val, st), "DecodeBlocked panicked: %v\n%s", val, st)
			return
		}
		c.Evals(1)
		if len(stream)-cur < 4 {
			return
		}
		L := int(binary.BigEndian.Uint32(stream[cur:]))
		if L < 4 || cur+L > len(stream) {
			return
		}
		if err != nil {
			if len(frame) > 0 {
				fail("frame-with-error", "DecodeBlocked returned %d octets together with error %v", len(frame), err)
			}
			c.Cover(fmt.Sprintf("blocking/%s/transient/%T/gave-up", name, fault))
			return // the caller cannot know how much was consumed: the connection is to be dropped
		}
		if !bytes.Equal(frame, stream[cur:cur+L]) {
			fail("wrong-frame-after-transient-failure", "frame %d: DecodeBlocked returned %d octets %s with a nil error, the stream holds %s there", k, len(frame), hx(frame), hx(stream[cur:cur+L]))
			return
		}
		cur += L
	}
	c.Cover(fmt.Sprintf("blocking/%s/transient/%T/carried-on", name, fault))
}

func concat(frames [][]byte) (stream []byte, ends []int) {
	for _, f := range frames {
		stream = append(stream, f...)
		ends = append(ends, len(stream))
	}
	return
}

func init() {
	faults := []error{io.EOF, io.ErrUnexpectedEOF, errInjected}
	each := func(f func(name string, cd codec.Codec)) {
		for _, n := range []string{"CMPPCodec", "SMPPCodec"} {
			f(n, codecs()[n])
		}
	}
	fw.Register(&fw.Prop{
		ID:        "C04",
		Technique: "runtime monitor: sequential cursor model (shadow state) checked after every Decode/DecodeBlocked step over generated streams x arrival schedules x injected read faults",
		Rule: "a case = one frame list; non-blocking: every single cut (and every cut pair for streams <= 32 octets) exhaustively for short streams, 1-octet drip and random multi-cut otherwise; blocking: every fault position x 3 fault kinds for short streams, random otherwise; malformed prefixes 0..3 at every frame position; " +
			"distinct_nontrivial = distinct (extractor, codec, schedule class, frames delivered / fault class) combinations observed",
		Assumptions: []string{
			"the harness ConnReader follows the documented contract (Peek returns what is there plus an error when short; views die at the next feed)",
			"'refused with an error' for prefixes 0..3 means an error other than ErrPacketNotComplete (DESIGN §7)",
		},
		Stages: []*fw.Stage{
			{
				Name: "singlecuts", N: q(3000, 400000), Exhaustive: "every single cut position of each generated stream <= 64 octets; every cut pair for streams <= 32 octets",
				Run: func(c *fw.Case) {
					frames := genFrames(c.R, 4, true)
					stream, _ := concat(frames)
					each(func(name string, cd codec.Codec) {
						runNonBlocking(c, name, cd, stream, nil, "whole")
						for cut := 1; cut < len(stream); cut++ {
							runNonBlocking(c, name, cd, stream, []int{cut}, "single-cut")
						}
						if len(stream) <= 32 {
							for a := 1; a < len(stream); a++ {
								for b := a + 1; b < len(stream); b++ {
									runNonBlocking(c, name, cd, stream, []int{a, b}, "cut-pair")
								}
							}
						}
					})
				},
			},
			{
				Name: "multicut", N: q(6000, 1200000),
				Run: func(c *fw.Case) {
					frames := genFrames(c.R, 8, false)
					stream, _ := concat(frames)
					each(func(name string, cd codec.Codec) {
						// random multi-cut
						var cuts []int
						for p := 0; p < len(stream); {
							p += c.R.Pick(1, 1, 2, 3, 4, 5, 7, 16, 100, 1460, 4096)
							if p < len(stream) {
								cuts = append(cuts, p)
							}
						}
						runNonBlocking(c, name, cd, stream, cuts, "multi-cut")
						if len(stream) <= 600 {
							drip := make([]int, 0, len(stream))
							for p := 1; p < len(stream); p++ {
								drip = append(drip, p)
							}
							runNonBlocking(c, name, cd, stream, drip, "drip")
						}
					})
				},
			},
			{
				// hundreds of small frames arriving in one piece (a burst of heartbeats and receipts): the extractor is called
				// until it says "incomplete", and that must be after the last complete frame, not before
				Name: "manyframes", N: q(200, 20000),
				Run: func(c *fw.Case) {
					n := c.R.Pick(255, 256, 257, 258, 300, 511, 512, 513, 700, 1024, 1025, 2049)
					frames := make([][]byte, n)
					for i := range frames {
						l := c.R.Pick(4, 12, 16, 16, 17, c.R.Range(4, 40))
						f := c.R.Bytes(l)
						binary.BigEndian.PutUint32(f, uint32(l))
						frames[i] = f
					}
					stream, _ := concat(frames)
					each(func(name string, cd codec.Codec) {
						var cuts []int
						for k := c.R.Intn(3); k > 0; k-- {
							cuts = append(cuts, 1+c.R.Intn(len(stream)-1))
						}
						sort.Ints(cuts)
						runNonBlocking(c, name, cd, stream, cuts, "many-frames-one-arrival")
					})
					c.Cover(fmt.Sprintf("manyframes/%d", n))
				},
			},
			{
				Name: "blockingfaults", N: q(3000, 400000), Exhaustive: "every fault position x {EOF, ErrUnexpectedEOF, custom error} of each generated stream <= 64 octets",
				Run: func(c *fw.Case) {
					frames := genFrames(c.R, 4, true)
					stream, ends := concat(frames)
					each(func(name string, cd codec.Codec) {
						for at := 0; at <= len(stream); at++ {
							for _, f := range faults {
								var cuts []int
								if c.R.Bool() {
									for p := c.R.Range(1, 5); p < len(stream); p += c.R.Range(1, 9) {
										cuts = append(cuts, p)
									}
								}
								runBlocking(c, name, cd, stream, ends, cuts, at, f, "every-position")
							}
						}
					})
				},
			},
			{
				Name: "blockingtransient", N: q(3000, 400000), Exhaustive: "a one-off failure (timeout-typed, deadline-exceeded, plain) at every position of each generated stream <= 64 octets, the stream continuing afterwards",
				Run: func(c *fw.Case) {
					frames := genFrames(c.R, 4, true)
					stream, ends := concat(frames)
					each(func(name string, cd codec.Codec) {
						for at := 0; at < len(stream); at++ {
							for _, f := range []error{timeoutErr{}, os.ErrDeadlineExceeded, errInjected} {
								var cuts []int
								if c.R.Bool() {
									for p := c.R.Range(1, 5); p < len(stream); p += c.R.Range(1, 9) {
										cuts = append(cuts, p)
									}
								}
								runBlockingTransient(c, name, cd, stream, ends, cuts, at, f)
							}
						}
					})
				},
			},
			{
				Name: "blockingrandom", N: q(4000, 800000),
				Run: func(c *fw.Case) {
					frames := genFrames(c.R, 8, false)
					stream, ends := concat(frames)
					each(func(name string, cd codec.Codec) {
						var cuts []int
						for p := 0; p < len(stream); {
							p += c.R.Pick(1, 2, 3, 4, 5, 7, 16, 100, 1460, 4096, 65536)
							if p < len(stream) {
								cuts = append(cuts, p)
							}
						}
						at := len(stream)
						if c.R.Chance(2, 3) {
							at = c.R.Intn(len(stream) + 1)
						}
						runBlocking(c, name, cd, stream, ends, cuts, at, faults[c.R.Intn(3)], "random")
					})
				},
			},
			{
				// one codec value serving several connections, as a server does: extraction on one stream must not be
				// disturbed by extraction on another stream that happens in between
				Name: "sharedcodec", N: q(6000, 600000),
				Run: func(c *fw.Case) {
					r := c.R
					each(func(name string, cd codec.Codec) {
						// (a) non-blocking: two streams fed alternately, one Decode call at a time, same codec
						sa, _ := concat(genFrames(r, 4, r.Bool()))
						sb, _ := concat(genFrames(r, 4, r.Bool()))
						ca, cb := &feedConn{}, &feedConn{}
						streams := [2][]byte{sa, sb}
						conns := [2]*feedConn{ca, cb}
						fed, cur := [2]int{}, [2]int{}
						for fed[0] < len(sa) || fed[1] < len(sb) {
							k := r.Intn(2)
							if fed[k] >= len(streams[k]) {
								k = 1 - k
							}
							n := r.Pick(1, 2, 3, 4, 5, 8, 16, 64, 4096)
							if fed[k]+n > len(streams[k]) {
								n = len(streams[k]) - fed[k]
							}
							conns[k].feed(streams[k][fed[k] : fed[k]+n])
							fed[k] += n
							for iter := 0; iter < 64; iter++ {
								var frame []byte
								var err error
								if p, val, st := fw.Try(func() { frame, err = cd.Decode(conns[k]) }); p {
									c.Failf("shared-"+fw.PanicSig(val, st)+"/"+name, "Decode panicked: %v\n%s", val, st)
									return
								}
								c.Evals(1)
								avail := fed[k] - cur[k]
								complete := avail >= 4 && int(binary.BigEndian.Uint32(streams[k][cur[k]:])) <= avail
								if !complete {
									if !errors.Is(err, codec.ErrPacketNotComplete) {
										c.Failf("shared-nonblocking-incomplete/"+name, "stream %d: %d octets buffered, frame incomplete, but Decode returned frame=%v err=%v (two streams share one codec)", k, avail, frame != nil, err)
										return
									}
									break
								}
								L := int(binary.BigEndian.Uint32(streams[k][cur[k]:]))
								if err != nil || !bytes.Equal(frame, streams[k][cur[k]:cur[k]+L]) {
									c.Failf("shared-nonblocking-wrong-frame/"+name, "stream %d (two streams share one codec): Decode returned (%s, %v), expected frame %s", k, hx(frame), err, hx(streams[k][cur[k]:cur[k]+L]))
									return
								}
								cur[k] += L
							}
						}
						c.Cover("sharedcodec/" + name + "/nonblocking")
						// (b) blocking: stream A has delivered its prefix and waits for its body while stream B is extracted completely
						fa := genFrames(r, 1, true)[0]
						fbs := genFrames(r, 3, true)
						if len(fbs[0]) == len(fa) {
							fbs[0] = append(fbs[0], 0xAB)
							binary.BigEndian.PutUint32(fbs[0], uint32(len(fbs[0])))
						}
						sB, endsB := concat(fbs)
						atBody := make(chan struct{})
						goOn := make(chan struct{})
						connA := &chunkConn{stream: fa, cuts: []int{4}, faultAt: len(fa), fault: io.EOF}
						connA.onRead = func(nth int) {
							if nth == 2 { // the read that follows the 4-octet prefix
								close(atBody)
								<-goOn
							}
						}
						type res struct {
							frame []byte
							err   error
							pan   string
						}
						done := make(chan res, 1)
						go func() {
							var rr res
							if p, val, st := fw.Try(func() { rr.frame, rr.err = cd.DecodeBlocked(connA) }); p {
								rr.pan = fmt.Sprintf("%v\n%s", val, st)
							}
							done <- rr
						}()
						if len(fa) > 4 {
							<-atBody
						}
						runBlocking(c, name, cd, sB, endsB, nil, len(sB), io.EOF, "shared-codec-other-stream")
						if len(fa) > 4 {
							close(goOn)
						}
						ra := <-done
						c.Evals(1)
						switch {
						case ra.pan != "":
							c.Failf("shared-blocking-panic/"+name, "%s", ra.pan)
						case ra.err != nil || !bytes.Equal(ra.frame, fa):
							c.Failf("shared-blocking-wrong-frame/"+name, "stream A's frame %s was extracted as (%s, %v) while another stream was served by the same codec value between A's prefix and body", hx(fa), hx(ra.frame), ra.err)
						default:
							c.Cover("sharedcodec/" + name + "/blocking-interleaved")
						}
					})
				},
			},
			{
				Name: "shortprefix", N: q(4000, 400000), Exhaustive: "prefix values 0..3 at every frame position of each generated frame list",
				Run: func(c *fw.Case) {
					frames := genFrames(c.R, 4, true)
					for pos := 0; pos <= len(frames); pos++ {
						for bad := uint32(0); bad < 4; bad++ {
							pre, _ := concat(frames[:pos])
							tail := make([]byte, 4+c.R.Intn(12))
							copy(tail, c.R.Bytes(len(tail)))
							binary.BigEndian.PutUint32(tail, bad)
							stream := append(append([]byte(nil), pre...), tail...)
							each(func(name string, cd codec.Codec) {
								var cuts []int
								if c.R.Bool() && len(stream) > 2 {
									cuts = []int{c.R.Range(1, len(stream)-1)}
								}
								runNonBlocking(c, name, cd, stream, cuts, "short-prefix")
								runBlocking(c, name, cd, stream, nil, cuts, len(stream), io.EOF, "short-prefix")
							})
						}
					}
				},
			},
		},
	})
}
