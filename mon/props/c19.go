package props

import (
	"fmt"
	"time"

	"github.com/hujm2023/go-sms-protocol/smpp"

	"verifmon/fw"
)

// C19 — SMPP validity-period strings denote exactly the requested time.

func digits(s string, a, b int) (int, bool) {
	n := 0
	for i := a; i < b; i++ {
		if s[i] < '0' || s[i] > '9' {
			return 0, false
		}
		n = n*10 + int(s[i]-'0')
	}
	return n, true
}

func c19Check(c *fw.Case, now time.Time, v string, d time.Duration, parsable bool, class string) {
	c19Forms(c, now, v, d, parsable, class, []bool{true, false})
	c.Echo("ToValidatePeriod", func() string {
		a, e1 := smpp.ToValidatePeriod(now, v, false)
		r, e2 := smpp.ToValidatePeriod(now, v, true)
		return fmt.Sprintf("absolute=(%q,%v) relative=(%q,%v)", a, e1, r, e2)
	})
}

// c19Forms judges one call per listed form, in the listed order.
func c19Forms(c *fw.Case, now time.Time, v string, d time.Duration, parsable bool, class string, forms []bool) {
	for _, rel := range forms {
		c.Evals(1)
		var out string
		var err error
		if pan, val, st := fw.Try(func() { out, err = smpp.ToValidatePeriod(now, v, rel) }); pan {
			c.Failf("validity-"+fw.PanicSig(val, st), "ToValidatePeriod(%s, %q, %v): %v\n%s", now.Format(time.RFC3339Nano), v, rel, val, st)
			continue
		}
		form := map[bool]string{true: "relative", false: "absolute"}[rel]
		ctx := fmt.Sprintf("ToValidatePeriod(now=%s, %q, relative=%v) = (%q, %v)", now.UTC().Format(time.RFC3339Nano), v, rel, out, err)
		if !parsable || d < 0 {
			if err == nil {
				c.Failf("invalid-duration-accepted/"+form, "%s: a %s duration must be refused", ctx, map[bool]string{true: "negative", false: "unparsable"}[parsable])
			}
			c.Cover("validity/" + form + "/" + class + "/refused")
			continue
		}
		secs := int64(d / time.Second)
		if rel {
			if err != nil {
				c.Cover("validity/relative/" + class + "/refused-not-representable")
				// refusing is allowed only when the format cannot carry the duration (days > 99 with YY=MM=00)
				if secs < 100*86400 {
					// the property allows an error for durations "not representable in the format"; the library's
					// relative form has two day digits and no months/years
					if secs < 31*86400 {
						c.Failf("relative-refused-representable", "%s: %d s is representable (DD hh mm ss) but was refused", ctx, secs)
					}
				}
				continue
			}
			if out == "" {
				if secs != 0 {
					c.Failf("relative-silently-shortened/empty", "%s: a duration of %d s became the empty (zero) period", ctx, secs)
				}
				c.Cover("validity/relative/" + class + "/empty")
				continue
			}
			if len(out) != 16 || out[12:] != "000R" {
				c.Failf("relative-format", "%s: expected 16 characters YYMMDDhhmmss000R", ctx)
				continue
			}
			yy, ok1 := digits(out, 0, 2)
			mo, ok2 := digits(out, 2, 4)
			dd, ok3 := digits(out, 4, 6)
			hh, ok4 := digits(out, 6, 8)
			mi, ok5 := digits(out, 8, 10)
			ss, ok6 := digits(out, 10, 12)
			if !(ok1 && ok2 && ok3 && ok4 && ok5 && ok6) || hh >= 24 || mi >= 60 || ss >= 60 {
				c.Failf("relative-format", "%s: fields out of range", ctx)
				continue
			}
			if yy != 0 || mo != 0 {
				// years/months have no fixed length in seconds; the library documents YY=MM=00
				c.Failf("relative-format", "%s: YY/MM are expected to be 00", ctx)
				continue
			}
			if got := int64(dd)*86400 + int64(hh)*3600 + int64(mi)*60 + int64(ss); got != secs {
				c.Failf("relative-silently-shortened/value", "%s denotes %d s, requested %d s", ctx, got, secs)
			}
			c.Cover("validity/relative/" + class + "/ok")
		} else {
			if err != nil {
				c.Failf("absolute-refused", "%s: an absolute instant is always representable", ctx)
				continue
			}
			if out == "" {
				if secs != 0 {
					c.Failf("absolute-empty", "%s", ctx)
				}
				continue
			}
			want := now.Add(d).UTC()
			if len(out) != 16 || out[12:] != "000+" {
				c.Failf("absolute-format", "%s: expected yyMMddHHmmss000+", ctx)
				continue
			}
			exp := want.Format("060102150405")
			if out[:12] != exp {
				c.Failf("absolute-instant", "%s: denotes %s, expected UTC(now+d) = %s", ctx, out[:12], exp)
			}
			c.Cover("validity/absolute/" + class + "/ok")
		}
	}
}

func init() {
	boundaries := []time.Duration{0, time.Second, 59 * time.Second, 60 * time.Second, 61 * time.Second, 3599 * time.Second, 3600 * time.Second, 3601 * time.Second,
		86399 * time.Second, 86400 * time.Second, 86401 * time.Second, 30*86400*time.Second + 86399*time.Second, 31 * 86400 * time.Second, 31*86400*time.Second + time.Second,
		32 * 86400 * time.Second, 62 * 86400 * time.Second, 99 * 86400 * time.Second, 100 * 86400 * time.Second, 365 * 86400 * time.Second, 366 * 86400 * time.Second,
		36500 * 86400 * time.Second}
	nows := func(r *fw.Rng) time.Time {
		switch r.Intn(8) {
		case 0:
			return time.Date(2024, 2, 29, 23, 59, 59, 0, time.UTC)
		case 1:
			return time.Date(2099, 12, 31, 23, 59, 59, 999999999, time.UTC)
		case 2:
			return time.Date(2000, 1, 1, 0, 0, 0, 0, time.UTC)
		case 3:
			return time.Date(2023, 12, 31, 23, 59, 58, 500000000, time.UTC)
		case 4:
			return time.Date(2026, 3, 1, 0, 0, 0, 0, time.FixedZone("CST", 8*3600))
		default:
			return time.Unix(946684800+int64(r.U64()%3155760000), int64(r.Intn(1000000000))).UTC()
		}
	}
	fw.Register(&fw.Prop{
		ID:        "C19",
		Technique: "runtime monitor: arithmetic oracle on the produced 16-character SMPP time (relative: DD*86400+hh*3600+mm*60+ss == floor(d); absolute: UTC(now+d)), `now` passed explicitly",
		Rule: "durations: every unit boundary +-1 s (59/60/61 s, 1 h, 24 h, 30 d 23:59:59, 31 d, 32 d, 99/100 d, 365 d, 100 y), negative and unparsable strings, random durations in every unit syntax time.ParseDuration accepts, sub-second parts; x relative and absolute form x `now` at leap day, year/century end, non-UTC zone and random instants 2000..2099; call sequences over a small pool of durations in every order of the two forms; the same calls with the process's time.Local set to seven zones (+05:30, +05:45, -08:00, +14:00, -12:00, +08:00, UTC); " +
			"distinct_nontrivial = distinct (form, duration class, outcome) combinations",
		Assumptions: []string{
			"relative form: YY=MM=00 as the library documents; a duration the two day digits cannot carry may be refused with an error, never shortened",
			"absolute form: two-digit year compared modulo 100; sub-second parts may be truncated",
		},
		Stages: []*fw.Stage{
			{
				Name: "boundaries", Exhaustive: "the listed unit boundaries +-1 s, each also with 1 ns / 500 ms / 999 ms / 999999999 ns added, in both forms",
				N: func(t fw.Tier) uint64 {
					return uint64(len(boundaries)) * 3 * map[fw.Tier]uint64{fw.Quick: 20, fw.Thorough: 20000}[t]
				},
				Run: func(c *fw.Case) {
					d := boundaries[c.Idx%uint64(len(boundaries))] + time.Duration(int(c.Idx/uint64(len(boundaries))%3)-1)*time.Second
					// ... and the same boundaries with a sub-second part (the repetitions cycle through them)
					frac := []time.Duration{0, 0, time.Nanosecond, 500 * time.Millisecond, 999 * time.Millisecond, 999999999 * time.Nanosecond}[c.Idx/uint64(3*len(boundaries))%6]
					if d >= 0 {
						d += frac
					}
					v := d.String()
					if c.R.Bool() && d%time.Second == 0 {
						v = fmt.Sprintf("%ds", int64(d/time.Second))
					}
					c19Check(c, nows(c.R), v, d, true, fmt.Sprintf("boundary%02d", c.Idx%uint64(len(boundaries))))
					c.Sample(3, map[string]any{"duration": v, "seconds": int64(d / time.Second)})
				},
			},
			{
				Name: "random", N: q(120000, 300000000),
				Run: func(c *fw.Case) {
					r := c.R
					var v string
					class := ""
					switch r.Intn(8) {
					case 0:
						v, class = fmt.Sprintf("%dh%dm%ds", r.Intn(2400), r.Intn(60), r.Intn(60)), "hms"
					case 1:
						v, class = fmt.Sprintf("%dm", r.Intn(200000)), "minutes"
					case 2:
						v, class = fmt.Sprintf("%d.%03ds", r.Intn(4000000), r.Intn(1000)), "fractional-seconds"
						if r.Chance(1, 3) {
							v = fmt.Sprintf("%d.%ds", r.Intn(4000), r.Pick(95, 96, 975, 99, 999, 9999, 949, 5, 49, 51))
							class = "fractional-seconds-near-carry"
						}
					case 3:
						v, class = fmt.Sprintf("%dms", r.U64()%4000000000), "millis"
					case 4:
						v, class = fmt.Sprintf("-%ds", 1+r.Intn(100000)), "negative"
						if r.Bool() {
							v = []string{"-1ns", "-1us", "-1ms", "-500ms", "-999ms", "-0.5s", "-1.5s", "-0.000000001s", "-1h0m0.5s"}[r.Intn(9)]
							class = "negative-subsecond"
						}
					case 5:
						v, class = []string{"", "abc", "1d", "10", "1h-", "١s", "1 h", "h1"}[r.Intn(8)], "unparsable"
					case 6:
						v, class = fmt.Sprintf("%dh", r.Intn(24*36500)), "hours-to-100y"
						if r.Chance(1, 3) {
							// other spellings time.ParseDuration accepts for the same value: leading zeros, an explicit plus sign
							n := r.Pick(8, 9, 10, 17, 24, 64, 100, 600, 777, r.Intn(100000))
							unit := []string{"h", "m", "s"}[r.Intn(3)]
							v = fmt.Sprintf([]string{"0%d%s", "00%d%s", "%04d%s", "%06d%s", "+%d%s", "+0%d%s"}[r.Intn(6)], n, unit)
							class = "zero-padded-or-signed"
						}
					default:
						v, class = fmt.Sprintf("%dh%ds", 24*r.Intn(40), r.Intn(3)), "day-multiples"
					}
					d, err := time.ParseDuration(v)
					c19Check(c, nows(r), v, d, err == nil, class)
				},
			},
			{
				// the result must be a function of the arguments of THIS call: sequences of calls over a small pool of
				// durations (so that equal strings recur) in every order of the two forms, refused values in between
				Name: "sequence", N: q(40000, 40000000),
				Run: func(c *fw.Case) {
					r := c.R
					pool := make([]string, r.Range(1, 4))
					for i := range pool {
						switch r.Intn(5) {
						case 0:
							pool[i] = fmt.Sprintf("%ds", r.Intn(100))
						case 1:
							pool[i] = fmt.Sprintf("%dh%dm", r.Intn(700), r.Intn(60))
						case 2:
							pool[i] = []string{"", "abc", "-5s", "1d"}[r.Intn(4)]
						case 3:
							pool[i] = (boundaries[r.Intn(len(boundaries))]).String()
						default:
							pool[i] = fmt.Sprintf("%dm%ds", r.Intn(50000), r.Intn(60))
						}
					}
					n := r.Range(2, 10)
					now := nows(r)
					pattern := ""
					// strings the caller still holds: each must read at the end as it did when it was returned
					type kept struct{ s, copy, what string }
					var held []kept
					for i := 0; i < n; i++ {
						v := pool[r.Intn(len(pool))]
						rel := r.Bool()
						if r.Chance(1, 4) {
							now = nows(r)
						}
						d, err := time.ParseDuration(v)
						c19Forms(c, now, v, d, err == nil, "sequence", []bool{rel})
						if out, e := smpp.ToValidatePeriod(now, v, rel); e == nil && out != "" {
							held = append(held, kept{out, string(append([]byte(nil), out...)), fmt.Sprintf("ToValidatePeriod(%s, %q, relative=%v)", now.UTC().Format(time.RFC3339), v, rel)})
						}
						if i < 3 {
							pattern += map[bool]string{true: "R", false: "A"}[rel]
						}
					}
					for _, k := range held {
						if k.s != k.copy {
							c.Failf("result-changed-by-later-call", "the string %s returned read %q then and reads %q after the later calls of the sequence", k.what, k.copy, k.s)
							break
						}
					}
					c.Cover("sequence/" + pattern)
				},
			},
			{
				// the process's local time zone is part of the environment the library runs in, not of the request:
				// the same calls with time.Local set to other zones (and `now` expressed in that zone)
				Name: "localzone", N: q(20000, 20000000),
				Run: func(c *fw.Case) {
					r := c.R
					zones := []struct {
						name string
						off  int
					}{{"IST", 5*3600 + 1800}, {"PST", -8 * 3600}, {"LINT", 14 * 3600}, {"NPT", 5*3600 + 2700}, {"BIT", -12 * 3600}, {"CST", 8 * 3600}, {"UTC", 0}}
					z := zones[c.Idx%uint64(len(zones))]
					saved := time.Local
					time.Local = time.FixedZone(z.name, z.off)
					defer func() { time.Local = saved }()
					var v string
					switch r.Intn(4) {
					case 0:
						v = fmt.Sprintf("%ds", r.Intn(4000000))
					case 1:
						v = fmt.Sprintf("%dh%dm%ds", r.Intn(2400), r.Intn(60), r.Intn(60))
					case 2:
						v = (boundaries[r.Intn(len(boundaries))] + time.Duration(r.Intn(3)-1)*time.Second).String()
					default:
						v = fmt.Sprintf("%dm", r.Intn(200000))
					}
					d, err := time.ParseDuration(v)
					now := nows(r)
					if r.Bool() {
						now = now.In(time.Local)
					}
					c19Check(c, now, v, d, err == nil, "zone"+z.name)
				},
			},
		},
	})
}
