package props

import (
	"fmt"

	protocol "github.com/hujm2023/go-sms-protocol"

	"verifmon/fw"
)

// C07 — part sizes, concatenation header, part count bound, and the header parser.
func init() {
	fw.Register(&fw.Prop{
		ID:        "C07",
		Technique: "runtime monitor: size/header/part-count oracle over split results against a greedy whole-character splitter model; exhaustive enumeration of the concatenation-header parser",
		Rule: "producer side: the C06 workload judged for part sizes (<=140 octets incl. header, <=153 septets), non-empty parts, header 05 00 03 ref total seq, part count <= greedy whole-character model, refusal beyond 255 parts; " +
			"parser side: all 2^24 (ref,total,seq) triples of the 6-octet form and all 2^16 references of the 7-octet form enumerated, every single-octet near miss of a valid header, short strings; distinct_nontrivial = distinct producer outcome classes + parser blocks enumerated",
		Assumptions: []string{"greedy model: each part is filled with as many whole characters as fit 134 octets / 153 septets"},
		Stages: []*fw.Stage{
			{Name: "producer", N: q(400000, 10000000), Run: func(c *fw.Case) { splitCase(c, judgeC07) }},
			{
				Name: "parser6", Exhaustive: "all (ref,total,seq) in 0..255^3 for the header 05 00 03 ref total seq",
				N: func(fw.Tier) uint64 { return 256 },
				Run: func(c *fw.Case) {
					ref := int(c.Idx)
					payloads := []string{"", "x", "hello world", "\x05\x00\x03abc", string(c.R.Bytes(c.R.Range(1, 140)))}
					for tot := 0; tot < 256; tot++ {
						for seq := 0; seq < 256; seq++ {
							pl := payloads[(tot+seq)%len(payloads)]
							in := string([]byte{5, 0, 3, byte(ref), byte(tot), byte(seq)}) + pl
							fk, t, i, content, valid := protocol.ParseLongSmsContent(in)
							c.Evals(1)
							if !valid || fk != ref || t != tot || i != seq || content != pl {
								c.Failf("parser-6-octet-form", "ParseLongSmsContent(%s) = (ref %d, total %d, seq %d, content %q, valid %v); expected (%d,%d,%d,%q,true)", hx([]byte(in)), fk, t, i, content, valid, ref, tot, seq, pl)
							}
						}
					}
					c.Cover(fmt.Sprintf("parser6/ref%d", ref))
				},
			},
			{
				Name: "parser7", Exhaustive: "all 16-bit references 0..65535 in the header 06 08 04 hi lo total seq",
				N: func(fw.Tier) uint64 { return 256 },
				Run: func(c *fw.Case) {
					hi := int(c.Idx)
					for lo := 0; lo < 256; lo++ {
						tot, seq := c.R.Intn(256), c.R.Intn(256)
						for _, pl := range []string{"p", "payload \x00\x01", ""} {
							in := string([]byte{6, 8, 4, byte(hi), byte(lo), byte(tot), byte(seq)}) + pl
							fk, t, i, content, valid := protocol.ParseLongSmsContent(in)
							c.Evals(1)
							if !valid || fk != hi<<8|lo || t != tot || i != seq || content != pl {
								c.Failf("parser-7-octet-form", "ParseLongSmsContent(%s) = (ref %d, total %d, seq %d, content %q, valid %v); expected (ref %d = hi<<8|lo, %d, %d, %q, true)", hx([]byte(in)), fk, t, i, content, valid, hi<<8|lo, tot, seq, pl)
							}
						}
					}
					c.Cover(fmt.Sprintf("parser7/hi%d", hi))
				},
			},
			{
				Name: "nearmiss", N: q(20000, 600000),
				Run: func(c *fw.Case) {
					r := c.R
					var hdr []byte
					if r.Bool() {
						hdr = []byte{5, 0, 3, byte(r.U32()), byte(r.U32()), byte(r.U32())}
					} else {
						hdr = []byte{6, 8, 4, byte(r.U32()), byte(r.U32()), byte(r.U32()), byte(r.U32())}
					}
					pl := r.Bytes(r.Range(0, 20))
					var in []byte
					kind := ""
					switch r.Intn(8) {
					case 5, 6: // a longer user data header that merely CONTAINS a concatenation element (first or not),
						// with other well-formed elements around it: not one of the two header forms
						concat := []byte{0, 3, byte(r.U32()), byte(r.Range(1, 9)), 1}
						if r.Bool() {
							concat = []byte{8, 4, byte(r.U32()), byte(r.U32()), byte(r.Range(1, 9)), 1}
						}
						others := [][]byte{{0x05, 0x04, 0x0b, 0x84, 0x23, 0xf0}, {0x24, 0x01, byte(r.Intn(14))}, {0x25, 0x01, byte(r.Intn(14))}, {0x04, 0x02, 0x23, 0xf0}}
						var ies []byte
						if r.Bool() {
							ies = append(append(ies, concat...), others[r.Intn(len(others))]...)
							kind = "longer-udh-concat-first"
						} else {
							ies = append(append(ies, others[r.Intn(len(others))]...), concat...)
							kind = "longer-udh-concat-later"
						}
						if r.Chance(1, 3) {
							ies = append(ies, others[r.Intn(len(others))]...)
						}
						in = append(append([]byte{byte(len(ies))}, ies...), pl...)
					case 7: // UDHL says 5/6 but the element is not a concatenation element
						in, kind = append([]byte{5, 0x24, 0x03, byte(r.U32()), 2, 1}, pl...), "other-element-of-same-size"
					case 0: // wrong octet in the first three
						k := r.Intn(3)
						x := byte(r.U32())
						for x == hdr[k] {
							x++
						}
						// 05 00 03 <-> 06 08 04 cannot be reached by one substitution, so any change is a miss
						hdr[k] = x
						in, kind = append(hdr, pl...), "wrong-iei-octet"
					case 1: // too short for any header
						in, kind = append(hdr, pl...)[:r.Intn(6)], "shorter-than-6"
					case 2: // 7-octet form with only 6 octets
						in, kind = []byte{6, 8, 4, byte(r.U32()), byte(r.U32()), byte(r.U32())}, "7-form-6-octets"
					case 3: // plain text
						in, kind = []byte("hello, this is not a concatenated message"), "plain"
					default: // header octets shifted by one
						in, kind = append([]byte{byte(r.Intn(5))}, append(hdr, pl...)...), "shifted"
						if len(in) >= 3 && ((in[0] == 5 && in[1] == 0 && in[2] == 3) || (in[0] == 6 && in[1] == 8 && in[2] == 4)) {
							return
						}
					}
					var valid bool
					var content string
					if !try1(c, "ParseLongSmsContent", in, func() { _, _, _, content, valid = protocol.ParseLongSmsContent(string(in)) }) {
						return
					}
					if valid || content != string(in) {
						c.Failf("parser-near-miss-accepted/"+kind, "ParseLongSmsContent(%s) reported valid=%v content=%q; expected 'not concatenated' and the content unchanged", hx(in), valid, content)
					}
					c.Cover("nearmiss/" + kind)
				},
			},
		},
	})
}
