package props

import (
	"bytes"
	"fmt"

	sms "github.com/hujm2023/go-sms-protocol"

	"verifmon/fw"
	"verifmon/pdus"
)

// C02 — the bytes are the layout the specifications prescribe: library encoder vs the
// independent table-driven reference codec, octet for octet, and library decoder on
// reference-built images.

func init() {
	ts := func() *pdus.Tables { return pdus.Load() }
	sweepTotal := func() uint64 {
		n := 0
		for _, t := range ts().Types {
			n += pdus.SweepSize(t)
		}
		return uint64(n)
	}
	gridTypes := []string{"cmpp20.PduSubmit/CMPP_SUBMIT", "cmpp30.Submit/CMPP_SUBMIT", "sgip12.Submit/SGIP_SUBMIT", "smgp30.Submit/Submit"}
	bodyTypes := []string{"cmpp20.PduDeliver/CMPP_DELIVER", "cmpp30.Deliver/CMPP_DELIVER", "sgip12.Deliver/SGIP_DELIVER", "smgp30.Deliver/Deliver",
		"smpp34.SubmitSm/submit_sm", "smpp34.DeliverSm/deliver_sm"}
	fw.Register(&fw.Prop{
		ID:        "C02",
		Technique: "runtime monitor: differential oracle — library encoder/decoder vs an independent reference codec generated from the specification tables (doc/*.pdf), octet-for-octet",
		Rule: "cases = (PDU type, generated field assignment) as C01; the library image is compared octet-for-octet with the reference image (optional-parameter tail as a set of triplets) and the library decoder is run on the reference image with optional parameters in shuffled order; " +
			"grid stage enumerates destination count 0..255 x body length 0..255 for the four submit types; distinct_nontrivial = distinct (stage, type, field, boundary class) combinations, grid cells counted individually",
		Assumptions: []string{
			"spec/wire_tables.json is a faithful transcription of the field tables in doc/*.pdf (each entry cites its section); the PDFs are the trusted base",
			"reference codec (mon/pdus/values.go) shares no code with packet.Reader/Writer",
		},
		Stages: []*fw.Stage{
			{
				Name: "sweep",
				N:    func(t fw.Tier) uint64 { return sweepTotal() * map[fw.Tier]uint64{fw.Quick: 40, fw.Thorough: 1500}[t] },
				Run: func(c *fw.Case) {
					k := int(c.Idx % sweepTotal())
					for _, t := range ts().Types {
						if n := pdus.SweepSize(t); k < n {
							f, cl := pdus.SweepPick(t, k)
							c02Case(c, t, f, cl, nil)
							return
						} else {
							k -= n
						}
					}
				},
			},
			{
				Name: "random",
				N:    q(600000, 20000000),
				Run:  func(c *fw.Case) { c02Case(c, typeIdx(ts(), c.Idx), -1, 0, nil) },
			},
			{
				Name:       "grid",
				Exhaustive: "destination count 0..255 x body length 0..255 for cmpp20/cmpp30/sgip12/smgp30 submit (262144 images)",
				N:          func(fw.Tier) uint64 { return 4 * 256 * 256 },
				Run: func(c *fw.Case) {
					t := ts().ByKey[gridTypes[c.Idx%4]]
					k := c.Idx / 4
					c02Case(c, t, -1, 0, &gridCell{dests: int(k % 256), body: int(k / 256)})
				},
			},
			{
				Name:       "bodylen",
				Exhaustive: "body length 0..255 for the deliver types and SMPP submit_sm/deliver_sm",
				N:          func(t fw.Tier) uint64 { return 6 * 256 * map[fw.Tier]uint64{fw.Quick: 4, fw.Thorough: 64}[t] },
				Run: func(c *fw.Case) {
					t := ts().ByKey[bodyTypes[c.Idx%6]]
					c02Case(c, t, -1, 0, &gridCell{dests: -1, body: int(c.Idx / 6 % 256)})
				},
			},
		},
	})
}

type gridCell struct{ dests, body int }

// fieldAt names the specification field that owns offset off of the reference image.
func fieldAt(t *pdus.Type, v *pdus.Values, off int) string {
	if off < 4 {
		return "header.length"
	}
	if off < 8 {
		return "header.command"
	}
	if off < t.HeaderLen() {
		return "header.sequence/status"
	}
	pos := t.HeaderLen()
	for i := range t.Fields {
		f := t.Fields[i]
		n := len(pdus.RefBody([]pdus.Field{f}, v))
		if off < pos+n {
			return f.Spec
		}
		pos += n
	}
	return "beyond-end"
}

// c02Recv: one long-lived PDU value per type and worker process.
var c02Recv = map[string]sms.PDU{}

func c02Case(c *fw.Case, t *pdus.Type, force, class int, g *gridCell) {
	v, classes := pdus.Gen(t, c.R, force, class)
	if g != nil {
		for i := range t.Fields {
			f := &t.Fields[i]
			if f.Kind == "list" && g.dests >= 0 {
				l := make([][]byte, g.dests)
				for k := range l {
					l[k] = []byte(fmt.Sprintf("86%011d", c.R.U64()%100000000000))
				}
				v.F[f.Spec] = l
				v.F[f.Count] = uint64(g.dests)
			}
			if f.Kind == "body" {
				v.F[f.Spec] = c.R.Bytes(g.body)
				v.F[f.Len] = uint64(g.body)
			}
		}
	}
	ctx := func() string { return pdus.Describe(t, v) }
	if c.R.Chance(1, 8) {
		refusedEncodeFirst(c) // what a refused encode leaves in pooled writers must not reach the image judged next
	}
	// --- encoder side
	p := pdus.Build(t, v)
	if c.R.Bool() {
		pdus.SetHeaderLength(t, p, uint32(c.R.Pick(1, 12, 16, 0xffff, int(c.R.U32()>>1))))
	}
	if g == nil && c.R.Chance(1, 4) {
		// a reused object: it has already been encoded once with other values (e.g. the previous segment of a long
		// message); the image of the second encode must be the layout of the values it holds NOW
		old, _ := pdus.Gen(t, c.R, -1, 0)
		q := pdus.Build(t, old)
		if _, e0, s0, _ := encode(c, q); s0 == "" && e0 == nil {
			pdus.Fill(t, q, v)
			p = q
		}
	}
	b, err, psig, pd := encode(c, p)
	switch {
	case psig != "":
		c.Failf("encode-"+psig+"/"+t.Key(), "%s\n%s", ctx(), pd)
	case err != nil:
		c.Failf("encode-error/"+t.Key(), "IEncode of a well-formed value failed: %v\n%s", err, ctx())
	default:
		post := pdus.Extract(t, p)
		if ok, bad := allowedNormalisation(t, v, post); !ok {
			c.Failf("encode-mutates-receiver/"+t.Key()+"/"+firstField(bad), "IEncode changed its receiver: %v\n%s", bad, ctx())
		}
		// the reference image of what the encoder was asked to encode
		post.Cmd = v.Cmd
		post.Status = v.Status
		ref := pdus.RefEncode(t, post)
		if t.BodylessOnError && v.Status != 0 && len(b) > len(ref) && bytes.Equal(b[4:len(ref)], ref[4:]) {
			// the one conditional layout of the five documents: no body behind an error status
			c.Failf("encode-layout/"+t.Key()+"/body-present-with-error-status", "command_status %#x: the document says the PDU body is not returned, the encoder emits %d octets behind the header\n got=%s\nwant=%s", v.Status, len(b)-len(ref), hx(b), hx(ref))
			b = nil
		}
		mand := pdus.MandatoryLen(t, ref)
		cmpLen := mand
		same := len(b) >= cmpLen && bytes.Equal(b[:cmpLen], ref[:cmpLen])
		if b == nil {
			// reported above
		} else if same {
			// optional-parameter tail as a set
			lt, e1 := tlvTail(b[cmpLen:])
			rt, _ := tlvTail(ref[cmpLen:])
			if e1 != nil || lt != rt {
				c.Failf("encode-layout/"+t.Key()+"/optional-parameters", "optional-parameter tail differs from the specification form (as a set)\n got=%s\nwant=%s\n%s", hx(b[cmpLen:]), hx(ref[cmpLen:]), ctx())
			}
		} else {
			off := 0
			for off < len(b) && off < len(ref) && b[off] == ref[off] {
				off++
			}
			c.Failf("encode-layout/"+t.Key()+"/"+fieldAt(t, post, off), "library image differs from the specification layout at offset %d (field %s)\n got=%s\nwant=%s\n%s",
				off, fieldAt(t, post, off), hx(b), hx(ref), ctx())
		}
		if b != nil && int(be32(b)) != len(b) {
			c.Failf("length-prefix/"+t.Key(), "first four octets announce %d, image has %d octets\n%s", be32(b), len(b), ctx())
		}
	}
	// --- decoder side: a conformant image assembled without the library
	rv := v.Clone()
	for i := range t.Fields {
		if t.Fields[i].Kind == "tlv" {
			l := rv.F[t.Fields[i].Spec].([]pdus.TLV)
			perm := c.R.Perm(len(l))
			sh := make([]pdus.TLV, len(l))
			for a, bb := range perm {
				sh[a] = l[bb]
			}
			rv.F[t.Fields[i].Spec] = sh
		}
	}
	img := pdus.RefEncode(t, rv)
	keep := append([]byte(nil), img...)
	qd := t.New()
	if g == nil && c.R.Chance(1, 3) {
		// a receive loop decodes every frame into the same value: what the previous frame (other values of the same
		// type) left in it is not part of this image
		if o, ok := c02Recv[t.Key()]; ok {
			qd = o
		} else {
			c02Recv[t.Key()] = qd
		}
		if len(t.Extra) > 0 {
			// the library's own (longer) form of this PDU went through the value before: what only that form
			// carries must be gone after the specification image has been decoded
			lt := t.Lib()
			ov, _ := pdus.Gen(lt, c.R, -1, 0)
			if b0, e0 := pdus.Build(lt, ov).IEncode(); e0 == nil {
				_ = qd.IDecode(b0)
			}
		}
	}
	derr, psig, pd := decode(c, qd, img)
	switch {
	case psig != "":
		c.Failf("decode-"+psig+"/"+t.Key(), "%s\nimage=%s\n%s", ctx(), hx(keep), pd)
	case derr != nil:
		c.Failf("decode-error/"+t.Key(), "IDecode rejected a specification-conformant image: %v\n%s\nimage=%s", derr, ctx(), hx(keep))
	default:
		got := pdus.Extract(t, qd)
		for _, one := range pdus.Diff(t, v, got) {
			c.Failf("decode-values/"+t.Key()+"/"+firstField([]string{one})+mismatchKind(t, v, got, firstField([]string{one})), "decoding a specification image gave different values: %s\n%s\nimage=%s", one, ctx(), hx(keep))
		}
		if hl := pdus.HeaderLength(t, qd); int(hl) != len(keep) {
			c.Failf("decoded-header-length/"+t.Key(), "decoded header length %d, image has %d octets", hl, len(keep))
		}
		if len(t.Extra) > 0 {
			// fields of the library's struct that the specification image does not carry read as zero afterwards
			lt := t.Lib()
			all := pdus.Extract(lt, qd)
			for _, f := range t.Extra {
				if u, ok := all.F[f.Spec].(uint64); ok && u != 0 {
					c.Failf("decode-values/"+t.Key()+"/stale-"+f.Go, "the specification image carries no %s, the decoded value reports %d (left over from an earlier frame decoded into the same value)\nimage=%s", f.Go, u, hx(keep))
				}
			}
		}
	}
	if g != nil {
		c.Cover(fmt.Sprintf("%s/%s/d%d/b%d", c.Stage.Name, t.Key(), g.dests, g.body))
	} else {
		if len(t.Fields) == 0 {
			c.Cover(c.Stage.Name + "/" + t.Key())
		}
		for i, cl := range classes {
			if cl != "derived" {
				c.Cover(c.Stage.Name + "/" + t.Key() + "/" + t.Fields[i].Spec + "/" + cl)
			}
		}
	}
	c.Sample(2, map[string]any{"type": t.Key(), "values": ctx(), "reference_image": hx(keep)})
	echoCodec(c, t, v, keep)
}

// tlvTail canonicalises an optional-parameter tail (strict parse) into a set string.
func tlvTail(b []byte) (string, error) {
	v := &pdus.Values{F: map[string]any{}}
	_, err := pdus.RefDecodeBody([]pdus.Field{{Spec: "t", Kind: "tlv"}}, b, v)
	if err != nil {
		return "", err
	}
	l, _ := v.F["t"].([]pdus.TLV)
	d := pdus.CanonTLV(l)
	return d, nil
}
