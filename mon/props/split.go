package props

import (
	"bytes"
	"context"
	"fmt"
	"strings"
	"sync"

	protocol "github.com/hujm2023/go-sms-protocol"
	"github.com/hujm2023/go-sms-protocol/datacoding"

	"verifmon/fw"
	"verifmon/ref"
)

// Shared observation + judges for C06 (content preserved, reported coding), C07 (sizes, header,
// part count) and C14 (no character cut by a boundary).

type codingKind int

const (
	kASCII codingKind = iota
	kLatin1
	kUCS2
	kGB
	kGSMUnpacked
	kGSMPacked
)

func (k codingKind) String() string {
	return [...]string{"ASCII", "Latin1", "UCS2", "GB18030", "GSM7-unpacked", "GSM7-packed"}[k]
}

// unitsOf gives, per character of t, its length in capacity units under kind (octets, or septets
// for the GSM kinds); ok=false if kind cannot represent t. For Latin-1 and GB18030 "can represent"
// and the per-character length are the library codec's own verdict (declared in DESIGN 3.1).
func unitsOf(kind codingKind, t string) (units []int, ok bool) {
	tab := ref.GSM7()
	for _, r := range t {
		switch kind {
		case kASCII:
			if r >= 0x80 {
				return nil, false
			}
			units = append(units, 1)
		case kUCS2:
			if r >= 0x10000 {
				units = append(units, 4)
			} else {
				units = append(units, 2)
			}
		case kGSMUnpacked, kGSMPacked:
			e, in := tab.FromRun[r]
			if !in {
				return nil, false
			}
			units = append(units, len(e))
		case kLatin1, kGB:
			key := rune(kind)<<24 | r
			unitMu.Lock()
			n, seen := unitCache[key]
			unitMu.Unlock()
			if !seen {
				var e []byte
				var err error
				if kind == kLatin1 {
					e, err = datacoding.Latin1(string(r)).Encode()
				} else {
					e, err = datacoding.GB18030(string(r)).Encode()
				}
				n = len(e)
				if err != nil || n == 0 {
					n = -1
				}
				unitMu.Lock()
				unitCache[key] = n
				unitMu.Unlock()
			}
			if n < 0 {
				return nil, false
			}
			units = append(units, n)
		}
	}
	return units, true
}

// unitCache memoises the library codec's per-character verdict (Latin-1, GB18030); single goroutine per worker.
var (
	unitCache = map[rune]int{}
	unitMu    sync.Mutex
)

func capacities(kind codingKind) (single, per int) {
	if kind == kGSMUnpacked || kind == kGSMPacked {
		return 160, 153
	}
	return 140, 134
}

// greedyParts is the reference splitter model: fill each part with as many whole characters as fit.
func greedyParts(units []int, per int) int {
	n, cur := 0, 0
	for _, u := range units {
		if cur+u > per {
			n++
			cur = 0
		}
		cur += u
	}
	if cur > 0 {
		n++
	}
	return n
}

type splitObs struct {
	entry     string // CMPP / SMPP / Build-CMPP / Build-SMPP
	text      string
	reqNum    int
	refByte   byte
	parts     [][]byte
	repNum    int // reported coding number
	err       error
	panicSig  string
	panicText string
	// derived
	repKind  codingKind
	repKnown bool
}

func cmppKind(n int) (codingKind, bool) {
	switch n {
	case 0:
		return kASCII, true
	case 8, 9:
		return kUCS2, true
	case 15:
		return kGB, true
	}
	return 0, false
}

func smppKind(n int) (codingKind, bool) {
	switch n {
	case 0:
		return kGSMUnpacked, true
	case 99:
		return kGSMPacked, true
	case 1:
		return kASCII, true
	case 3:
		return kLatin1, true
	case 8:
		return kUCS2, true
	}
	return 0, false
}

func observeSplit(c *fw.Case, entry, text string, req int, refByte byte) *splitObs {
	o := &splitObs{entry: entry, text: text, reqNum: req, refByte: refByte, repNum: -1}
	ctx := context.Background()
	arm(c, 4*len(text)+4096)
	p, val, st := fw.Try(func() {
		switch entry {
		case "CMPP":
			var f datacoding.CMPPDataCoding
			o.parts, f, o.err = protocol.EncodeCMPPContentAndSplit(ctx, text, datacoding.CMPPDataCoding(req), refByte)
			o.repNum = int(f)
		case "SMPP":
			var f datacoding.SMPPDataCoding
			o.parts, f, o.err = protocol.EncodeSMPPContentAndSplit(ctx, text, datacoding.SMPPDataCoding(req), refByte)
			o.repNum = int(f)
		case "Build-CMPP":
			var f datacoding.ProtocolDataCoding
			o.parts, f, o.err = builderFor(c, "CMPP", req).Content(text, refByte).Build(ctx)
			if cf, ok := f.(datacoding.CMPPDataCoding); ok {
				o.repNum = int(cf)
			}
		case "Build-SMPP":
			var f datacoding.ProtocolDataCoding
			o.parts, f, o.err = builderFor(c, "SMPP", req).Content(text, refByte).Build(ctx)
			if sf, ok := f.(datacoding.SMPPDataCoding); ok {
				o.repNum = int(sf)
			}
		}
	})
	disarm(c)
	c.Evals(1)
	if p {
		o.panicSig, o.panicText = fw.PanicSig(val, st), fmt.Sprintf("panic: %v\n%s", val, st)
		return o
	}
	// the answer is a function of the request: asked again after the next case (fresh builder for the Build entries)
	c.Echo("split/"+entry, func() string {
		var parts [][]byte
		var rep int = -1
		var err error
		switch entry {
		case "CMPP":
			var f datacoding.CMPPDataCoding
			parts, f, err = protocol.EncodeCMPPContentAndSplit(ctx, text, datacoding.CMPPDataCoding(req), refByte)
			rep = int(f)
		case "SMPP":
			var f datacoding.SMPPDataCoding
			parts, f, err = protocol.EncodeSMPPContentAndSplit(ctx, text, datacoding.SMPPDataCoding(req), refByte)
			rep = int(f)
		case "Build-CMPP":
			var f datacoding.ProtocolDataCoding
			parts, f, err = protocol.NewBatchDataCodingEncoder().Protocol(protocol.CMPP).DataCodings([]datacoding.ProtocolDataCoding{datacoding.CMPPDataCoding(req)}).Content(text, refByte).Build(ctx)
			if f != nil {
				rep = f.ToInt()
			}
		case "Build-SMPP":
			var f datacoding.ProtocolDataCoding
			parts, f, err = protocol.NewBatchDataCodingEncoder().Protocol(protocol.SMPP).DataCodings([]datacoding.ProtocolDataCoding{datacoding.SMPPDataCoding(req)}).Content(text, refByte).Build(ctx)
			if f != nil {
				rep = f.ToInt()
			}
		}
		return fmt.Sprintf("coding=%d err=%v parts=%s", rep, err != nil, digestParts(parts, nil))
	})
	if entry == "CMPP" || entry == "Build-CMPP" {
		o.repKind, o.repKnown = cmppKind(o.repNum)
	} else {
		o.repKind, o.repKnown = smppKind(o.repNum)
	}
	return o
}

// reusedBuilders: one long-lived builder per protocol and worker process, used for half of the Build requests
// (an application that keeps its builder); the other half gets a fresh one.
var (
	reusedBuilders = map[string]*protocol.BatchDataCodingEncoder{}
	reusedReq      = map[string]int{}
)

// builderFor returns a builder with protocol and candidate set; half of the time the long-lived one, which gets
// Protocol/DataCodings only when the request's coding differs from its last one — otherwise only Content() is
// called before Build(), as an application sending many messages through one builder does.
func builderFor(c *fw.Case, proto string, req int) *protocol.BatchDataCodingEncoder {
	mk := func() *protocol.BatchDataCodingEncoder {
		if proto == "CMPP" {
			return protocol.NewBatchDataCodingEncoder().Protocol(protocol.CMPP).DataCodings([]datacoding.ProtocolDataCoding{datacoding.CMPPDataCoding(req)})
		}
		return protocol.NewBatchDataCodingEncoder().Protocol(protocol.SMPP).DataCodings([]datacoding.ProtocolDataCoding{datacoding.SMPPDataCoding(req)})
	}
	if c.R.Bool() {
		return mk()
	}
	b := reusedBuilders[proto]
	if b == nil || reusedReq[proto] != req {
		b = mk()
		reusedBuilders[proto], reusedReq[proto] = b, req
	}
	return b
}

func (o *splitObs) ctx() string {
	t := o.text
	if len(t) > 300 {
		t = fmt.Sprintf("%q…(%d octets)", t[:300], len(t))
	} else {
		t = fmt.Sprintf("%q", t)
	}
	return fmt.Sprintf("entry=%s requested=%d ref=%d text=%s (utf8 hex %s) -> parts=%d reported=%d err=%v", o.entry, o.reqNum, o.refByte, t, hx([]byte(o.text)), len(o.parts), o.repNum, o.err)
}

// expectedCoding: requested if supported and able to represent the text, else UCS-2 (8).
func (o *splitObs) expectedCoding() (num int, kind codingKind) {
	var k codingKind
	var ok bool
	if o.entry == "CMPP" || o.entry == "Build-CMPP" {
		k, ok = cmppKind(o.reqNum)
	} else {
		k, ok = smppKind(o.reqNum)
	}
	if ok {
		if _, can := unitsOf(k, o.text); can {
			return o.reqNum, k
		}
	}
	return 8, kUCS2
}

// payloads strips the concatenation headers; single part -> the part itself.
func (o *splitObs) payloads() (pl [][]byte, headed bool) {
	if len(o.parts) <= 1 {
		return o.parts, false
	}
	for _, p := range o.parts {
		if len(p) < 6 {
			pl = append(pl, nil)
			continue
		}
		pl = append(pl, p[6:])
	}
	return pl, true
}

// refEncodeUnits returns the reference unit stream (octets; septets for GSM) of text under kind.
func refEncodeUnits(kind codingKind, t string) []byte {
	switch kind {
	case kASCII:
		return []byte(t)
	case kUCS2:
		return ref.UTF16BE(t)
	case kGSMUnpacked, kGSMPacked:
		s, _ := ref.GSM7().Encode(t)
		return s
	case kLatin1:
		e, _ := datacoding.Latin1(t).Encode()
		return e
	case kGB:
		e, _ := datacoding.GB18030(t).Encode()
		return e
	}
	return nil
}

// decodeAlone decodes one payload on its own with the reference decoder of kind.
func decodeAlone(kind codingKind, payload []byte) (string, bool) {
	switch kind {
	case kASCII:
		return string(payload), ref.IsASCII(string(payload))
	case kUCS2:
		return ref.DecodeUTF16BE(payload)
	case kGSMUnpacked:
		return ref.GSM7().Decode(payload)
	case kLatin1:
		d, err := datacoding.Latin1(payload).Decode()
		return string(d), err == nil
	case kGB:
		d, err := datacoding.GB18030(payload).Decode()
		if err != nil {
			return "", false
		}
		// a cut multi-octet character decodes to U+FFFD; report it as undecodable unless re-encoding reproduces the payload
		re, rerr := datacoding.GB18030(d).Encode()
		if rerr != nil || !bytes.Equal(re, payload) {
			return string(d), false
		}
		return string(d), true
	}
	return "", false
}

// packedAssign finds per-part septet counts such that the parts, unpacked as a handset does (told the
// count), spell the reference septet stream S in order. perPartOK demands every part be decodable alone.
func packedAssign(S []byte, payloads [][]byte, perPartOK bool) (counts []int, ok bool) {
	tab := ref.GSM7()
	var rec func(i, pos int) bool
	counts = make([]int, len(payloads))
	rec = func(i, pos int) bool {
		if i == len(payloads) {
			return pos == len(S)
		}
		m := len(payloads[i])
		cands := []int{m * 8 / 7}
		if m > 0 && (m*8)%7 == 0 {
			cands = append(cands, m*8/7-1)
		}
		for _, n := range cands {
			if n < 0 || pos+n > len(S) {
				continue
			}
			if !bytes.Equal(ref.UnpackN(payloads[i], n), S[pos:pos+n]) {
				continue
			}
			if perPartOK {
				if _, dok := tab.Decode(S[pos : pos+n]); !dok {
					continue
				}
			}
			counts[i] = n
			if rec(i+1, pos+n) {
				return true
			}
		}
		return false
	}
	return counts, rec(0, 0)
}

// ---------------------------------------------------------------------------
// judges

func judgeC06(c *fw.Case, o *splitObs) {
	if o.panicSig != "" {
		c.Failf("split-"+o.panicSig+"/"+o.entry, "%s\n%s", o.ctx(), o.panicText)
		return
	}
	expNum, expKind := o.expectedCoding()
	units, _ := unitsOf(expKind, o.text)
	total := 0
	for _, u := range units {
		total += u
	}
	single, per := capacities(expKind)
	if o.err != nil {
		if total > single && greedyParts(units, per) > 255 {
			c.Cover("c06/" + o.entry + "/refused-too-long")
			return // C07's clause
		}
		c.Failf("split-error/"+o.entry+"/"+expKind.String(), "split failed: %v\n%s", o.err, o.ctx())
		return
	}
	if o.repNum != expNum && strings.HasPrefix(o.entry, "Build-") && total > single && greedyParts(units, per) > 255 {
		// the batch encoder's contract (C09): a candidate that needs more than 255 parts cannot carry the message, and
		// UCS-2 is the fallback when no candidate can. Whatever it reports is judged as it stands below.
		c.Cover("c06/" + o.entry + "/requested-coding-needs-more-than-255-parts")
		expNum = o.repNum
	}
	if o.repNum != expNum {
		kind := "reported-coding"
		if _, sup := o.supportedReq(); !sup {
			kind = "reported-coding-unsupported-echoed"
		}
		c.Failf(kind+"/"+o.entry, "reported coding %d, expected %d (requested %d: supported=%v)\n%s", o.repNum, expNum, o.reqNum, func() bool { _, s := o.supportedReq(); return s }(), o.ctx())
	}
	if !o.repKnown {
		// content can only be judged under a coding we can decode; fall back to the expected one
		o.repKind = expKind
	}
	kind := o.repKind
	S := refEncodeUnits(kind, o.text)
	if _, can := unitsOf(kind, o.text); !can {
		c.Failf("reported-coding-cannot-represent/"+o.entry+"/"+kind.String(), "the reported coding cannot represent the text\n%s", o.ctx())
		return
	}
	pl, headed := o.payloads()
	if total <= single {
		if len(o.parts) != 1 {
			c.Failf("single-sms-split/"+o.entry+"/"+kind.String(), "text of %d units fits one SMS (limit %d) but %d parts were returned\n%s", total, single, len(o.parts), o.ctx())
		}
	}
	if !headed {
		if len(o.parts) != 1 {
			c.Failf("no-parts/"+o.entry, "no part returned\n%s", o.ctx())
			return
		}
		want := S
		if kind == kGSMPacked {
			want = ref.Pack(S)
		}
		if !bytes.Equal(o.parts[0], want) {
			c.Failf("content-altered/"+o.entry+"/"+kind.String()+"/single", "single part %s differs from the reference encoding %s\n%s", hx(o.parts[0]), hx(want), o.ctx())
		}
		libraryDecoderAgrees(c, o, kind, o.parts[0])
		c.Cover("c06/" + o.entry + "/" + kind.String() + "/single")
		return
	}
	if kind == kGSMPacked {
		if _, ok := packedAssign(S, pl, false); !ok {
			c.Failf("content-altered/"+o.entry+"/GSM7-packed/multi", "the parts, unpacked with the septet count a handset is told, do not spell the original septet stream (%d septets) in order\n%s\nparts=%s", len(S), o.ctx(), partsHex(o.parts))
		}
	} else {
		got := bytes.Join(pl, nil)
		if !bytes.Equal(got, S) {
			c.Failf("content-altered/"+o.entry+"/"+kind.String()+"/multi", "concatenated payloads (%d units) differ from the reference encoding (%d units)\n%s\nparts=%s", len(got), len(S), o.ctx(), partsHex(o.parts))
		}
	}
	libraryDecoderAgrees(c, o, kind, bytes.Join(pl, nil))
	c.Cover(fmt.Sprintf("c06/%s/%s/multi/parts%d", o.entry, kind, bucket(len(o.parts))))
}

// libraryDecoderAgrees: for Latin-1 and GB18030 the reference encoding is the library codec's own (declared
// exception), so an encoder that disagrees with its decoder would go unnoticed; decode the payload with the
// library's decoder of the reported coding and compare with the text.
func libraryDecoderAgrees(c *fw.Case, o *splitObs, kind codingKind, payload []byte) {
	var dec []byte
	var err error
	switch kind {
	case kLatin1:
		dec, err = datacoding.Latin1(payload).Decode()
	case kGB:
		if ref.GBCarveOut(o.text) {
			return
		}
		dec, err = datacoding.GB18030(payload).Decode()
	default:
		return
	}
	if err != nil || string(dec) != o.text {
		c.Failf("content-altered/"+o.entry+"/"+kind.String()+"/decoder-disagrees", "the payload, decoded under the reported coding, is not the original text (err=%v): %q\n%s", err, trunc200(string(dec)), o.ctx())
	}
}

func (o *splitObs) supportedReq() (codingKind, bool) {
	if o.entry == "CMPP" || o.entry == "Build-CMPP" {
		return cmppKind(o.reqNum)
	}
	return smppKind(o.reqNum)
}

func bucket(n int) int {
	switch {
	case n <= 4:
		return n
	case n <= 16:
		return 16
	case n <= 64:
		return 64
	case n <= 255:
		return 255
	}
	return 999
}

func partsHex(parts [][]byte) string {
	s := ""
	for i, p := range parts {
		if i >= 6 {
			s += fmt.Sprintf(" …(%d parts)", len(parts))
			break
		}
		s += fmt.Sprintf("[%d]%s ", i, hx(p))
	}
	return s
}

func judgeC07(c *fw.Case, o *splitObs) {
	if o.panicSig != "" {
		c.Failf("split-"+o.panicSig+"/"+o.entry, "%s\n%s", o.ctx(), o.panicText)
		return
	}
	_, expKind := o.expectedCoding()
	kind := expKind
	if o.repKnown {
		kind = o.repKind
	}
	units, can := unitsOf(kind, o.text)
	if !can {
		return // C06's business
	}
	total := 0
	for _, u := range units {
		total += u
	}
	single, per := capacities(kind)
	greedy := greedyParts(units, per)
	blind := (total + per - 1) / per
	if total > single && greedy > 255 && blind <= 255 {
		// Between the two counts the answer depends on whether parts are cut at character boundaries
		// (C14's subject): either outcome is accepted here, but an accepted result must still be well formed.
		c.Cover("c07/" + o.entry + "/" + kind.String() + "/greedy>255>=blind")
		if o.err != nil {
			return
		}
	} else if total > single && greedy > 255 {
		if o.err == nil {
			c.Failf("too-many-parts-not-refused/"+o.entry+"/"+kind.String(), "the message needs %d parts (> 255) but no error was returned; %d parts came back, first header %s\n%s", greedy, len(o.parts), hx(head6(o.parts)), o.ctx())
		} else {
			c.Cover("c07/" + o.entry + "/" + kind.String() + "/refused>255")
		}
		return
	}
	if o.err != nil {
		return
	}
	if len(o.parts) == 0 {
		// neither parts nor an error: "a message needing more than 255 parts is refused with an error", any other is
		// returned as one part or several
		c.Failf("no-parts-and-no-error/"+o.entry+"/"+kind.String(), "no part and no error came back for a text of %d units (whole-character parts %d, blind count %d)\n%s", total, greedy, blind, o.ctx())
		return
	}
	if len(o.parts) == 1 {
		sz := len(o.parts[0])
		if kind == kGSMPacked {
			if sz > 140 {
				c.Failf("single-part-too-big/"+o.entry+"/"+kind.String(), "single part of %d octets (> 140)\n%s", sz, o.ctx())
			}
		} else if sz > single {
			c.Failf("single-part-too-big/"+o.entry+"/"+kind.String(), "single part of %d units (> %d)\n%s", sz, single, o.ctx())
		}
		if total > single {
			c.Failf("oversize-single/"+o.entry+"/"+kind.String(), "text of %d units exceeds one SMS (%d) but one part was returned\n%s", total, single, o.ctx())
		}
		c.Cover("c07/" + o.entry + "/" + kind.String() + "/single")
		return
	}
	k := len(o.parts)
	if k > greedy && k > blind {
		c.Failf("more-parts-than-greedy/"+o.entry+"/"+kind.String(), "%d parts used; filling each part with whole characters needs %d\n%s", k, greedy, o.ctx())
	}
	for i, p := range o.parts {
		if len(p) <= 6 {
			c.Failf("empty-part/"+o.entry+"/"+kind.String(), "part %d of %d has no payload: %s\n%s", i+1, k, hx(p), o.ctx())
			continue
		}
		want := []byte{5, 0, 3, o.refByte, byte(k), byte(i + 1)}
		if !bytes.Equal(p[:6], want) {
			c.Failf("header/"+o.entry+"/"+kind.String(), "part %d of %d starts with %s, expected %s\n%s", i+1, k, hx(p[:6]), hx(want), o.ctx())
		}
		if len(p) > 140 && kind != kGSMUnpacked { // unpacked GSM-7 carries one septet per octet: its bound is 153 septets of payload
			c.Failf("part-too-big/"+o.entry+"/"+kind.String(), "part %d holds %d octets (> 140 including the header)\n%s", i+1, len(p), o.ctx())
		}
		if kind == kGSMPacked {
			if n := (len(p) - 6) * 8 / 7; n > 154 { // 134 octets carry at most 153 septets (+1 possible filler)
				c.Failf("part-too-big/"+o.entry+"/"+kind.String(), "part %d carries %d octets of packed payload", i+1, len(p)-6)
			}
		} else if (kind == kGSMUnpacked && len(p)-6 > 153) || (kind != kGSMUnpacked && len(p)-6 > 134) {
			c.Failf("part-too-big/"+o.entry+"/"+kind.String(), "part %d payload %d units exceeds the per-part capacity %d\n%s", i+1, len(p)-6, per, o.ctx())
		}
		// the parser must give the same values back
		fk, tot, idx, content, valid := protocol.ParseLongSmsContent(string(p))
		if !valid || fk != int(o.refByte) || tot != k || idx != i+1 || content != string(p[6:]) {
			c.Failf("parser-disagrees-with-producer/"+o.entry, "ParseLongSmsContent(part %d) = (%d,%d,%d,valid=%v), produced header %s", i+1, fk, tot, idx, valid, hx(p[:6]))
		}
	}
	c.Cover(fmt.Sprintf("c07/%s/%s/multi/parts%d", o.entry, kind, bucket(k)))
}

func head6(parts [][]byte) []byte {
	if len(parts) == 0 || len(parts[0]) < 6 {
		return nil
	}
	return parts[0][:6]
}

func judgeC14(c *fw.Case, o *splitObs) {
	if o.panicSig != "" || o.err != nil || len(o.parts) < 2 {
		return
	}
	_, expKind := o.expectedCoding()
	kind := expKind
	if o.repKnown {
		kind = o.repKind
	}
	if _, can := unitsOf(kind, o.text); !can {
		return
	}
	if kind == kGB && ref.GBCarveOut(o.text) {
		return
	}
	pl, _ := o.payloads()
	if kind == kGSMPacked {
		S := refEncodeUnits(kind, o.text)
		if _, ok := packedAssign(S, pl, true); !ok {
			if _, okLoose := packedAssign(S, pl, false); okLoose {
				c.Failf("character-straddles-parts/"+o.entry+"/GSM7-packed", "an escape pair straddles two parts: the parts spell the septet stream only if a part is allowed to end in 0x1b\n%s\nparts=%s", o.ctx(), partsHex(o.parts))
			} else {
				c.Failf("parts-not-decodable-alone/"+o.entry+"/GSM7-packed", "parts do not decode separately to the original\n%s", o.ctx())
			}
			return
		}
		c.Cover(fmt.Sprintf("c14/%s/GSM7-packed/ok/parts%d", o.entry, bucket(len(o.parts))))
		return
	}
	var sb []byte
	for i, p := range pl {
		s, ok := decodeAlone(kind, p)
		if !ok {
			c.Failf("character-straddles-parts/"+o.entry+"/"+kind.String(), "part %d of %d does not decode on its own under %s: payload ends/starts inside a character (payload head %s … tail %s)\n%s", i+1, len(pl), kind, hx(firstK(p, 6)), hx(lastK(p, 6)), o.ctx())
			return
		}
		sb = append(sb, s...)
	}
	if string(sb) != o.text {
		c.Failf("separate-decode-differs/"+o.entry+"/"+kind.String(), "decoding the parts separately and concatenating gives a different text\n%s", o.ctx())
		return
	}
	c.Cover(fmt.Sprintf("c14/%s/%s/ok/parts%d", o.entry, kind, bucket(len(o.parts))))
}

func firstK(b []byte, k int) []byte {
	if len(b) < k {
		return b
	}
	return b[:k]
}
func lastK(b []byte, k int) []byte {
	if len(b) < k {
		return b
	}
	return b[len(b)-k:]
}

// ---------------------------------------------------------------------------
// workload

type splitReq struct {
	entry string
	num   int
}

var cmppNums = []int{0, 8, 9, 15, 1, 3, 4, 25, 200}
var smppNums = []int{0, 1, 3, 8, 99, 2, 4, 9, 255}

// boundaryText builds a text whose encoding under kind has a multi-unit character at offset d from
// one or more part boundaries, with total length near a threshold.
func boundaryText(r *fw.Rng, kind codingKind) (string, string) {
	_, per := capacities(kind)
	single, _ := capacities(kind)
	var filler, multi []rune
	switch kind {
	case kASCII:
		filler, multi = []rune("abcdefghij0123456789 "), nil
	case kLatin1:
		filler, multi = []rune("abcéèñü "), nil
	case kUCS2:
		// one character from every range of high surrogates: D800.. (planes 1-2), DB40 (plane 14), DB80.. and DBFF (the
		// private-use planes 15/16)
		filler, multi = []rune("a中é文\ufffd"), []rune{0x1f600, 0x20000, 0x10ffff, 0xe0100, 0xf0000, 0xffffd, 0x100000, 0x2f800}
		if r.Chance(1, 3) {
			// variation selector, zero-width joiner, combining accent: emoji sequences put them right behind wide characters
			filler = []rune("a中\ufe0f\u200d\u0301文")
		} else if r.Chance(1, 3) {
			// 16-bit characters whose octets mean something in the octet codings: CR / LF / ESC / NUL as the low or the
			// high octet (U+4E0D 不 is 4E 0D, U+0A05 is 0A 05, U+041B is 04 1B, U+1B05 is 1B 05)
			filler = []rune{0x4e0d, 0x0a05, 0x041b, 0x200d, 0x0a85, 0x1b05, 0x000d, 0x000a, 0x0d0a, 0x0a0d, 0x1b1b, 0x0100, 'a'}
		}
	case kGB:
		// two-octet characters from both ends of the lead-byte range (0x81.. and 0xFE: U+4E02 is 81 40, U+4DAE is FE 9F,
		// U+3447 FE 56, U+2E81 FE 50), four-octet ones
		filler, multi = []rune("ab1 "), []rune{'中', '文', 0x20000, 0x1f600, 0x00e9, 0x3000, 0x4e02, 0x4dae, 0x3447, 0x2e81, 0xfffd, 0x10ffff}
	default:
		filler, multi = []rune("abc123 @"), []rune("[]{}^~|\\€\f")
		switch r.Intn(4) {
		case 3:
			if r.Chance(1, 2) {
				// letters of the alphabet written the other way Unicode allows — base letter + combining mark, ANGSTROM SIGN,
				// OHM SIGN: not in the GSM repertoire as they stand, whatever they normalise to
				filler = []rune("abcde\u0301 a\u030a\u212b\u2126o\u0308n\u0303u\u0308E\u0301")
			}
		case 0: // basic characters that take two UTF-8 octets, and escapes as ordinary filler
			filler = []rune("abé£Δñ12[]")
		case 1: // escape-heavy: more septets than UTF-8 octets
			filler = []rune("a[]{}|é^~")
		}
	}
	unitOf := func(x rune) int {
		u, _ := unitsOf(kind, string(x))
		if len(u) == 0 {
			return 1
		}
		return u[0]
	}
	// target length in units
	var target int
	switch r.Intn(8) {
	case 0:
		target = single + r.Range(-2, 2)
	case 1:
		target = per*r.Range(1, 4) + r.Range(-2, 2)
	case 2:
		target = per*r.Range(2, 12) + r.Range(-3, 3)
	case 3:
		target = single + 1 + r.Intn(per)
	case 4:
		target = per*r.Range(5, 40) + r.Range(-3, 3)
		if r.Chance(1, 6) {
			target = per*r.Pick(254, 255, 256) + r.Range(-3, 3)
		}
	case 5:
		target = r.Range(1, single)
	default:
		target = per*r.Range(1, 6) + r.Range(-per/2, per/2)
	}
	if target < 0 {
		target = 0
	}
	if len(multi) > 0 && r.Chance(1, 150) {
		// nothing but multi-unit characters, 100 to 260 parts: every cut is moved, parts fill up less than the blind
		// count says, headers must still tell the true number (or the message is refused beyond 255)
		m := multi[r.Intn(len(multi))]
		u := unitOf(m)
		if u > 1 {
			perPart := per / u
			n := perPart*r.Pick(100, 134, 135, 200, 254, 255, 256, 260) + r.Range(-2, 2)
			rs := make([]rune, n)
			for i := range rs {
				rs[i] = m
			}
			if r.Bool() {
				rs[r.Intn(len(rs))] = 'a'
			}
			return string(rs), fmt.Sprintf("%s/dense-multi-unit", kind)
		}
	}
	// positions (in units) at which a multi-unit character must START
	starts := map[int]rune{}
	if len(multi) > 0 {
		lo, hi := -3, 3
		if kind == kUCS2 || kind == kGB {
			// units are octets here and characters take 2 or 4 of them: a wide character that ENDS at the boundary
			// starts 4 octets before it
			lo, hi = -6, 4
		}
		d := r.Range(lo, hi)
		for b := per; b <= target+per; b += per {
			if r.Chance(2, 3) {
				dd := d
				if r.Chance(1, 4) {
					dd = r.Range(lo, hi)
				}
				starts[b+dd] = multi[r.Intn(len(multi))]
			}
		}
		if kind == kGSMPacked || kind == kGSMUnpacked {
			// escapes right at the single-SMS threshold as well
			starts[single-1+r.Range(-1, 1)] = multi[r.Intn(len(multi))]
		}
	}
	if len(multi) > 0 && r.Chance(1, 8) {
		// the message ENDS with a multi-unit character that begins just before a part boundary
		k := r.Range(1, 6)
		m := multi[r.Intn(len(multi))]
		u := unitOf(m)
		target = k*per - r.Range(1, u-1) + u
		starts = map[int]rune{target - u: m}
	}
	var rs []rune
	pos := 0
	for pos < target {
		if m, ok := starts[pos]; ok {
			rs = append(rs, m)
			pos += unitOf(m)
			if kind == kUCS2 && r.Bool() {
				// emoji sequences: a variation selector, a zero-width joiner or a combining mark directly behind the wide
				// character (U+1F3F3 U+FE0F U+200D U+1F308 …)
				if _, planned := starts[pos]; !planned && pos < target {
					mark := []rune{0xfe0f, 0x200d, 0x0301, 0xfe0f}[r.Intn(4)]
					rs = append(rs, mark)
					pos += unitOf(mark)
				}
			}
			continue
		}
		f := filler[r.Intn(len(filler))]
		// do not step over a planned start with a wide filler
		if u := unitOf(f); u > 1 {
			if _, planned := starts[pos+1]; planned {
				f = 'a'
			}
		}
		rs = append(rs, f)
		pos += unitOf(f)
	}
	if (kind == kGSMPacked || kind == kGSMUnpacked) && len(rs) > 0 && r.Chance(1, 6) {
		// the characters a packed message cannot end in without looking like padding, at the end of a message that
		// fills its last part
		rs[len(rs)-1] = rune(r.Pick('\r', '@', '\r'))
	}
	return string(rs), fmt.Sprintf("%s/target%s", kind, lenClass(target, single, per))
}

func lenClass(n, single, per int) string {
	switch {
	case n <= single:
		return "<=single"
	case n <= 4*per:
		return "few-parts"
	case n <= 250*per:
		return "many-parts"
	}
	return "around-255-parts"
}

// splitCase generates one (text, request) pair and hands the observation to the judges.
func splitCase(c *fw.Case, judges ...func(*fw.Case, *splitObs)) {
	r := c.R
	var text, class string
	kinds := []codingKind{kASCII, kLatin1, kUCS2, kGB, kGSMUnpacked, kGSMPacked}
	kind := kinds[r.Intn(len(kinds))]
	switch r.Intn(10) {
	case 0, 1:
		text, class = randomText(r, 600)
		class = "random/" + class
	default:
		text, class = boundaryText(r, kind)
	}
	// the request: mostly the coding the text was built for, sometimes any other (valid or invalid) number
	var reqs []splitReq
	switch kind {
	case kASCII:
		reqs = []splitReq{{"CMPP", 0}, {"SMPP", 1}, {"Build-CMPP", 0}, {"Build-SMPP", 1}}
	case kLatin1:
		reqs = []splitReq{{"SMPP", 3}, {"Build-SMPP", 3}}
	case kUCS2:
		reqs = []splitReq{{"CMPP", 8}, {"CMPP", 9}, {"SMPP", 8}, {"Build-CMPP", 8}, {"Build-SMPP", 8},
			// ... and codings that cannot represent it: the UCS-2 fallback splits these
			{"CMPP", 0}, {"SMPP", 0}, {"SMPP", 1}, {"SMPP", 3}, {"SMPP", 99}}
	case kGB:
		reqs = []splitReq{{"CMPP", 15}, {"Build-CMPP", 15}}
	case kGSMUnpacked:
		reqs = []splitReq{{"SMPP", 0}, {"Build-SMPP", 0}}
	case kGSMPacked:
		reqs = []splitReq{{"SMPP", 99}, {"Build-SMPP", 99}}
	}
	rq := reqs[r.Intn(len(reqs))]
	if r.Chance(1, 4) {
		if r.Bool() {
			rq = splitReq{"CMPP", cmppNums[r.Intn(len(cmppNums))]}
		} else {
			rq = splitReq{"SMPP", smppNums[r.Intn(len(smppNums))]}
		}
	}
	if (rq.entry == "Build-CMPP" || rq.entry == "Build-SMPP") && text == "" {
		rq.entry = rq.entry[6:]
	}
	refByte := byte(r.Pick(0, 1, 107, 255, int(r.U32()&0xff)))
	if prevSplitText != "" && r.Chance(1, 6) {
		// the same text again with another reference byte (bulk sending)
		text, rq = prevSplitText, prevSplitReq
		refByte = byte(r.U32())
	}
	prevSplitText, prevSplitReq = text, rq
	o := observeSplit(c, rq.entry, text, rq.num, refByte)
	// parts handed out by the previous call stay what they were
	for i, h := range heldSplit {
		if !bytes.Equal(h.live, h.snap) {
			c.Failf("parts-changed-by-later-call/"+h.name, "part %d returned by the previous split call (%s) now reads %s, was %s", i+1, h.name, hx(firstK(h.live, 24)), hx(firstK(h.snap, 24)))
			break
		}
	}
	heldSplit = heldSplit[:0]
	if o.err == nil && len(o.parts) <= 40 {
		for _, p := range o.parts {
			heldSplit = append(heldSplit, heldPacket{rq.entry, p, append([]byte(nil), p...)})
		}
	}
	for _, j := range judges {
		j(c, o)
	}
	c.Sample(2, map[string]any{"entry": rq.entry, "requested": rq.num, "ref": refByte, "text_class": class, "text_utf8_octets": len(text), "parts": len(o.parts), "reported": o.repNum, "err": fmt.Sprint(o.err), "first_part": hx(firstPart(o.parts))})
}

// heldSplit: the parts of the previous case (one goroutine per worker process).
var heldSplit []heldPacket

var (
	prevSplitText string
	prevSplitReq  splitReq
)

func firstPart(p [][]byte) []byte {
	if len(p) == 0 {
		return nil
	}
	return p[0]
}
