package props

import (
	"bytes"
	"fmt"
	"sync"

	"github.com/hujm2023/go-sms-protocol/cmpp"

	"verifmon/fw"
	"verifmon/pdus"
)

// C01 — encode -> decode round trip for all 57 PDU types (library against itself, field-wise),
// length word = real octet count, oversized fixed-width values refused.

func init() {
	ts := func() *pdus.Tables { return pdus.Load() }
	sweepTotal := func() uint64 {
		n := 0
		for _, t := range ts().Types {
			n += pdus.SweepSize(t.Lib())
		}
		return uint64(n)
	}
	fw.Register(&fw.Prop{
		ID:        "C01",
		Technique: "runtime monitor: field-wise round-trip oracle over generated PDU values (reflection compare), boundary sweep + random; Poison hook exposes pooled-memory results",
		Rule: "cases = (PDU type, generated field assignment); each-field sweep puts one field into each boundary class while the rest is random, plus random-all; " +
			"distinct_nontrivial = distinct (stage, type, field, boundary class) combinations exercised whose encode+decode was judged (body-less types count once per stage)",
		Assumptions: []string{
			"wire tables in spec/wire_tables.json name the struct field that carries each spec field (the only datum taken from the Go source); a meta-check fails the run if a PDU struct has an exported field no row covers",
			"equality is judged against the PDU as it stands after IEncode returned; the only accepted receiver normalisation is CMPP 2.0 submit Pk_total/Pk_number 0/0 -> 1/1",
			"SMGP message ids are given to the structs in the 20-hex-digit form the decoders produce",
		},
		Setup: func(w *fw.Worker) {
			for _, t := range ts().Types {
				if u := pdus.UncoveredFields(t); len(u) > 0 {
					panic(fmt.Sprintf("verifmon harness: %s has struct fields not covered by the wire table: %v", t.Key(), u))
				}
			}
		},
		Stages: []*fw.Stage{
			{
				Name: "sweep",
				N:    func(t fw.Tier) uint64 { return sweepTotal() * map[fw.Tier]uint64{fw.Quick: 24, fw.Thorough: 3000}[t] },
				Run: func(c *fw.Case) {
					k := int(c.Idx % sweepTotal())
					for _, t := range ts().Types {
						if n := pdus.SweepSize(t.Lib()); k < n {
							f, cl := pdus.SweepPick(t.Lib(), k)
							c01RoundTrip(c, t.Lib(), f, cl)
							return
						} else {
							k -= n
						}
					}
				},
			},
			{
				Name: "random",
				N:    q(150000, 50000000),
				Run:  func(c *fw.Case) { c01RoundTrip(c, libTypeIdx(ts(), c.Idx), -1, 0) },
			},
			{
				Name:       "oversize",
				Exhaustive: "every fixed/bin/list-element field of every type x oversize {w+1, w+7, 2w}",
				N: func(fw.Tier) uint64 {
					return uint64(len(c01OversizeCases(ts())))
				},
				Run: func(c *fw.Case) { c01Oversize(c, c01OversizeCases(ts())[c.Idx]) },
			},
			{
				Name: "statusreport",
				N:    q(20000, 5000000),
				Run:  c01StatusReport,
			},
		},
	})
}

func c01RoundTrip(c *fw.Case, t *pdus.Type, force, class int) {
	v, classes := pdus.Gen(t, c.R, force, class)
	p := pdus.Build(t, v)
	if c.R.Bool() {
		// whatever the header's length word holds before encoding (left over from an earlier use of the object)
		// is the encoder's to overwrite
		pdus.SetHeaderLength(t, p, uint32(c.R.Pick(1, 12, 16, 0xffff, int(c.R.U32()>>1))))
	}
	b, err, psig, pd := encode(c, p)
	ctx := func() string { return pdus.Describe(t, v) }
	if psig != "" {
		c.Failf("encode-"+psig+"/"+t.Key(), "%s\n%s", ctx(), pd)
		return
	}
	if err != nil {
		c.Failf("encode-error/"+t.Key(), "IEncode of a well-formed value failed: %v\n%s", err, ctx())
		return
	}
	post := pdus.Extract(t, p)
	if ok, bad := allowedNormalisation(t, v, post); !ok {
		c.Failf("encode-mutates-receiver/"+t.Key()+"/"+firstField(bad), "IEncode changed its receiver: %v\n%s", bad, ctx())
	}
	if int(be32(b)) != len(b) {
		c.Failf("length-prefix/"+t.Key(), "first four octets announce %d, image has %d octets\n%s\nimage=%s", be32(b), len(b), ctx(), hx(b))
	}
	img := append([]byte(nil), b...)
	q := t.New()
	derr, psig, pd := decode(c, q, b)
	if psig != "" {
		c.Failf("decode-"+psig+"/"+t.Key(), "%s\nimage=%s\n%s", ctx(), hx(img), pd)
		return
	}
	if derr != nil {
		c.Failf("decode-error/"+t.Key(), "IDecode of the library's own image failed: %v\n%s\nimage=%s", derr, ctx(), hx(img))
		return
	}
	if !bytes.Equal(img, b) {
		c.Failf("decode-writes-input/"+t.Key(), "IDecode modified its input buffer\n%s", ctx())
	}
	if hl := pdus.HeaderLength(t, q); int(hl) != len(img) {
		c.Failf("decoded-header-length/"+t.Key(), "decoded header length %d, image has %d octets\n%s", hl, len(img), ctx())
	}
	got := pdus.Extract(t, q)
	if d := pdus.Diff(t, post, got); len(d) > 0 {
		for _, one := range d {
			c.Failf("roundtrip-mismatch/"+t.Key()+"/"+firstField([]string{one})+mismatchKind(t, post, got, firstField([]string{one})), "decoded PDU differs from the original: %s\n%s\nimage=%s", one, ctx(), hx(img))
		}
	}
	if len(t.Fields) == 0 {
		c.Cover(c.Stage.Name + "/" + t.Key())
	}
	for i, cl := range classes {
		if cl != "derived" {
			c.Cover(c.Stage.Name + "/" + t.Key() + "/" + t.Fields[i].Spec + "/" + cl)
		}
	}
	c.Sample(2, map[string]any{"type": t.Key(), "values": pdus.Describe(t, v), "image": hx(img)})
	echoCodec(c, t, v, img)
}

type oversizeCase struct {
	t     *pdus.Type
	field int
	extra int // octets beyond the width
	elem  bool
}

var (
	oversizeCache []oversizeCase
	oversizeOnce  sync.Once
)

func c01OversizeCases(ts *pdus.Tables) []oversizeCase {
	oversizeOnce.Do(func() { oversizeCache = buildOversizeCases(ts) })
	return oversizeCache
}

func buildOversizeCases(ts *pdus.Tables) []oversizeCase {
	var l []oversizeCase
	for _, t := range ts.Types {
		for i, f := range t.Fields {
			switch f.Kind {
			case "fixed", "bin":
				for _, e := range []int{1, 7, f.W} {
					l = append(l, oversizeCase{t, i, e, false})
				}
			case "list":
				for _, e := range []int{1, 7, f.W} {
					l = append(l, oversizeCase{t, i, e, true})
				}
			}
		}
	}
	return l
}

func c01Oversize(c *fw.Case, oc oversizeCase) {
	t := oc.t
	f := t.Fields[oc.field]
	for rep := 0; rep < 8; rep++ {
		v, _ := pdus.Gen(t, c.R, -1, 0)
		big := make([]byte, f.W+oc.extra)
		for i := range big {
			big[i] = byte('A' + c.R.Intn(26))
		}
		if f.Repr != "" {
			// hex-represented ids: an id of w+extra octets, given in hex
			big = c.R.Bytes(f.W + oc.extra)
		}
		if oc.elem {
			l := v.F[f.Spec].([][]byte)
			if len(l) == 0 {
				l = [][]byte{nil}
				v.F[f.Count] = uint64(1)
			}
			l[c.R.Intn(len(l))] = big
			v.F[f.Spec] = l
		} else {
			v.F[f.Spec] = big
		}
		p := pdus.Build(t, v)
		b, err, psig, pd := encode(c, p)
		c.Evals(1)
		if psig != "" {
			c.Failf("oversize-"+psig+"/"+t.Key()+"/"+f.Spec, "%s\n%s", pdus.Describe(t, v), pd)
			continue
		}
		// the error path followed by the success path: a well-formed value of the same type encodes right afterwards
		if psig == "" && err != nil {
			gv, _ := pdus.Gen(t, c.R, -1, 0)
			gb, gerr, gsig, gpd := encode(c, pdus.Build(t, gv))
			if gsig != "" || gerr != nil || int(be32(gb)) != len(gb) {
				c.Failf("well-formed-refused-after-refusal/"+t.Key(), "right after a refused encode (oversize %s) a well-formed %s does not encode: err=%v %s %s", f.Spec, t.Key(), gerr, gsig, gpd)
			}
		}
		if err == nil {
			c.Failf("oversize-accepted/"+t.Key()+"/"+f.Spec, "a %d-octet value in the %d-octet slot %s was encoded without error (%d octets emitted)\n%s\nimage=%s",
				f.W+oc.extra, f.W, f.Spec, len(b), pdus.Describe(t, v), hx(b))
		} else if len(b) != 0 {
			c.Failf("oversize-bytes-with-error/"+t.Key()+"/"+f.Spec, "encoder returned an error AND %d octets", len(b))
		}
	}
	c.Cover(fmt.Sprintf("oversize/%s/%s/+%d", t.Key(), f.Spec, oc.extra))
}

func c01StatusReport(c *fw.Case) {
	fields := pdus.Load().StatusReport
	pt := &pdus.Type{Family: "cmpp", HKind: "none", Name: "status-report", Go: "SubPduDeliveryContent", Fields: fields}
	force, class := -1, 0
	if c.Idx%4 == 0 {
		k := int(c.Idx/4) % pdus.SweepSize(pt)
		force, class = pdus.SweepPick(pt, k)
	}
	v, classes := pdus.Gen(pt, c.R, force, class)
	s := &cmpp.SubPduDeliveryContent{
		MsgID: v.U("Msg_Id"), Stat: string(v.B("Stat")), SubmitTime: string(v.B("Submit_time")), DoneTime: string(v.B("Done_time")),
		DestTerminalID: string(v.B("Dest_terminal_Id")), SMSCSequence: uint32(v.U("SMSC_sequence")),
	}
	orig := *s
	var b []byte
	var err error
	if pan, val, st := fw.Try(func() { b, err = s.IEncode() }); pan {
		c.Failf("statusreport-encode-"+fw.PanicSig(val, st), "%+v: %v\n%s", orig, val, st)
		return
	}
	if err != nil {
		c.Failf("statusreport-encode-error", "%+v: %v", orig, err)
		return
	}
	if want := pdus.RefBody(fields, v); !bytes.Equal(want, b) {
		c.Failf("statusreport-layout", "encoded status report differs from the CMPP §7.4.5.1 layout\n got=%s\nwant=%s", hx(b), hx(want))
	}
	var d cmpp.SubPduDeliveryContent
	if pan, val, st := fw.Try(func() { err = d.IDecode(b) }); pan {
		c.Failf("statusreport-decode-"+fw.PanicSig(val, st), "%s: %v\n%s", hx(b), val, st)
		return
	}
	if err != nil {
		c.Failf("statusreport-decode-error", "%s: %v", hx(b), err)
		return
	}
	if d != orig {
		c.Failf("statusreport-mismatch", "decoded %+v, original %+v, image %s", d, orig, hx(b))
	}
	for i, cl := range classes {
		c.Cover("statusreport/" + fields[i].Spec + "/" + cl)
	}
}

// mismatchKind refines a mismatch signature for binary fields: "/trailing-nul-trimmed" when the
// only difference is that trailing 0x00 octets of the original are missing after decoding.
func mismatchKind(t *pdus.Type, orig, got *pdus.Values, spec string) string {
	f := t.Field(spec)
	if f == nil || f.Kind != "bin" {
		return ""
	}
	a, b := orig.B(spec), got.B(spec)
	if len(a) > 0 && a[len(a)-1] == 0 && bytes.Equal(bytes.TrimRight(a, "\x00"), b) {
		return "/trailing-nul-trimmed"
	}
	return ""
}
