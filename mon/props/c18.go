package props

import (
	"encoding/hex"
	"fmt"
	"strings"

	"github.com/hujm2023/go-sms-protocol/smgp/smgp30"
	"github.com/hujm2023/go-sms-protocol/smpp/smpp34"

	"verifmon/fw"
)

// C18 — delivery-receipt extraction recovers every field regardless of order.

var rcKeys = []string{"id", "sub", "dlvrd", "submit date", "done date", "stat", "err", "text"}
var rcAlt = []string{"", "Sub", "Dlvrd", "Submit_Date", "Done_Date", "Stat", "Err", "Text"}
var rcWidth = []int{10, 3, 3, 10, 10, 7, 3, 20}

// allTokens: every "key:" spelling; values must not contain any of them.
func allTokens() []string {
	var t []string
	for i, k := range rcKeys {
		t = append(t, k+":")
		if rcAlt[i] != "" {
			t = append(t, rcAlt[i]+":")
		}
	}
	return t
}

func containsToken(s string) bool {
	for _, t := range allTokens() {
		if strings.Contains(s, t) {
			return true
		}
	}
	return false
}

var valueWords = []string{"Subway", "Errata", "Status", "Textile", "stat", "err", "sub", "id", "text", "Sub", "Err", "Stat", "Text", "Dlvrd", "date", "done", "submit",
	"DELIVRD", "EXPIRED", "UNDELIV", "000", "001", "2410011230", "0123456789ABCDEF", "a:b", "x", "-", "_", "=", "中文", "é"}

func genValue(r *fw.Rng) string {
	for tries := 0; tries < 50; tries++ {
		var sb strings.Builder
		switch r.Intn(6) {
		case 0:
			return ""
		case 1:
			sb.WriteString(valueWords[r.Intn(len(valueWords))])
		case 2:
			for i, n := 0, r.Range(1, 4); i < n; i++ {
				sb.WriteString(valueWords[r.Intn(len(valueWords))])
			}
		case 3: // any octets but the space: NUL, control characters, high bytes
			n := r.Range(1, 12)
			for i := 0; i < n; i++ {
				b := byte(r.Pick(0, 0, 1, 9, 10, 13, 0x1f, 0x7f, 0x80, 0xff, int(r.U32()&0xff)))
				if b == ' ' {
					b = '_'
				}
				sb.WriteByte(b)
			}
		default:
			n := r.Range(1, 40)
			for i := 0; i < n; i++ {
				sb.WriteByte(byte(0x21 + r.Intn(0x5e))) // printable, no space
			}
		}
		v := sb.String()
		if len(v) > 40 {
			v = v[:40]
		}
		if !strings.Contains(v, " ") && !containsToken(v) && !containsToken(v+" ") {
			return v
		}
	}
	return "v"
}

func genSMGPID(r *fw.Rng) string {
	for {
		b := r.Bytes(10)
		switch r.Intn(5) {
		case 4: // a few decimal digits, a blank, then anything (BCD ids look like this: 31 20 05 12 …)
			k := r.Range(1, 9)
			for i := 0; i < k; i++ {
				b[i] = byte('0' + r.Intn(10))
			}
			b[k] = ' '
		case 0:
			b[r.Intn(10)] = ' '
		case 1:
			b[r.Intn(10)] = 0
		case 2:
			for i := range b {
				b[i] = byte('0' + r.Intn(10))
			}
		}
		if !containsToken(string(b)) {
			return string(b)
		}
	}
}

type rcField struct {
	idx   int
	key   string // spelling used
	value string
}

// buildReceipt joins the fields with single spaces. A value must not create a key token together with its neighbours.
func buildReceipt(fs []rcField) string {
	var parts []string
	for _, f := range fs {
		parts = append(parts, f.key+":"+f.value)
	}
	return strings.Join(parts, " ")
}

func pickFields(r *fw.Rng, idx uint64, smgp bool) []rcField {
	// subset: every one of the 2^8 subsets is reached through idx; order: a PRNG permutation
	mask := int(idx % 256)
	if idx%7 == 0 {
		mask = 255
	}
	var fs []rcField
	for _, i := range r.Perm(8) {
		if mask>>uint(i)&1 == 0 {
			continue
		}
		f := rcField{idx: i, key: rcKeys[i]}
		if smgp && rcAlt[i] != "" {
			switch idx / 256 % 3 {
			case 1:
				f.key = rcAlt[i]
			case 2:
				if r.Bool() {
					f.key = rcAlt[i]
				}
			}
		}
		if i == 0 && smgp {
			f.value = genSMGPID(r)
		} else {
			f.value = genValue(r)
		}
		fs = append(fs, f)
	}
	return fs
}

func c18SMPP(c *fw.Case) {
	fs := pickFields(c.R, c.Idx, false)
	s := buildReceipt(fs)
	want := [8]string{}
	for _, f := range fs {
		want[f.idx] = f.value
	}
	var d smpp34.DeliveryReceipt
	c.Evals(1)
	if pan, val, st := fw.Try(func() { d, _ = smpp34.ExtractDeliveryReceipt(s) }); pan {
		c.Failf("smpp-"+fw.PanicSig(val, st), "receipt %q: %v\n%s", s, val, st)
		return
	}
	got := [8]string{d.ID, d.Sub, d.Dlvrd, d.SubDate, d.DoneDate, d.Stat, d.Err, d.Text}
	for i := range got {
		if got[i] != want[i] {
			c.Failf("smpp-field/"+rcKeys[i], "receipt %q: field %q extracted as %q, expected %q", s, rcKeys[i], got[i], want[i])
		}
	}
	c.Echo("smpp34.ExtractDeliveryReceipt", func() string {
		d, err := smpp34.ExtractDeliveryReceipt(s)
		return fmt.Sprintf("%q %v", [8]string{d.ID, d.Sub, d.Dlvrd, d.SubDate, d.DoneDate, d.Stat, d.Err, d.Text}, err)
	})
	c.Cover(fmt.Sprintf("smpp/subset%02x", c.Idx%256))
	c.Sample(2, map[string]any{"variant": "smpp", "receipt": s, "extracted": got})
}

func c18SMGP(c *fw.Case) {
	fs := pickFields(c.R, c.Idx, true)
	s := buildReceipt(fs)
	want := [8]string{}
	spell := "primary"
	for _, f := range fs {
		v := f.value
		if f.idx == 0 {
			v = hex.EncodeToString([]byte(f.value))
		} else if len(v) > rcWidth[f.idx] {
			v = v[:rcWidth[f.idx]]
		}
		want[f.idx] = v
		if f.key != rcKeys[f.idx] {
			spell = "alt-or-mixed"
		}
	}
	var d smgp30.DeliveryReceipt
	c.Evals(1)
	if pan, val, st := fw.Try(func() { d, _ = smgp30.ExtractDeliveryReceipt(s) }); pan {
		c.Failf("smgp-"+fw.PanicSig(val, st), "receipt %q: %v\n%s", s, val, st)
		return
	}
	got := [8]string{d.ID, d.Sub, d.Dlvrd, d.SubDate, d.DoneDate, d.Stat, d.Err, d.Text}
	for i := range got {
		if got[i] != want[i] {
			c.Failf("smgp-field/"+rcKeys[i]+"/"+spell, "receipt %q (hex %s): field %q extracted as %q, expected %q", s, hx([]byte(s)), rcKeys[i], got[i], want[i])
		}
	}
	c.Echo("smgp30.ExtractDeliveryReceipt", func() string {
		d, err := smgp30.ExtractDeliveryReceipt(s)
		return fmt.Sprintf("%q %v", [8]string{d.ID, d.Sub, d.Dlvrd, d.SubDate, d.DoneDate, d.Stat, d.Err, d.Text}, err)
	})
	c.Cover(fmt.Sprintf("smgp/%s/subset%02x", spell, c.Idx%256))
	c.Sample(2, map[string]any{"variant": "smgp", "receipt": s, "extracted": got})
}

func init() {
	fw.Register(&fw.Prop{
		ID:        "C18",
		Technique: "runtime monitor: constructive oracle — receipts are built from a (key, value) list, so the expected extraction is known by construction; CMPP status body via the reference layout",
		Rule: "all 2^8 key subsets, each in PRNG permutations (all 8! orders of the full key set are sampled across runs), both SMGP key spellings (all-primary, all-alternative, mixed per key); values are space-free strings of 0..40 octets that contain no 'key:' token but may contain bare key names (Subway, Errata, stat…); SMGP ids are any ten octets incl. space and NUL; CMPP status report body as C01; " +
			"distinct_nontrivial = distinct (variant, spelling mode, key subset) combinations",
		Assumptions: []string{
			"SMPP receipts use the lower-case key set the SMPP extractor documents; only the SMGP variant has two spellings (property text)",
			"SMGP field widths {10,3,3,10,10,7,3,20} from SMGP 3.0.3 §6.2.63 (spec/wire_tables.json)",
		},
		Stages: []*fw.Stage{
			{Name: "smpp", N: q(150000, 80000000), Run: c18SMPP},
			{Name: "smgp", N: q(150000, 80000000), Run: c18SMGP},
			{Name: "statusreport", N: q(20000, 5000000), Run: c01StatusReport},
		},
	})
}
