package props

import (
	"bytes"
	"encoding/binary"
	"fmt"
	"reflect"
	"strings"

	"github.com/hujm2023/go-sms-protocol/packet"
	"github.com/hujm2023/go-sms-protocol/smgp"
	"github.com/hujm2023/go-sms-protocol/smpp"

	"verifmon/fw"
	"verifmon/pdus"
)

// C16 — optional-parameter containers (SMPP TLV, SMGP options) are lossless and safe.

func emit(l []pdus.TLV) []byte {
	return pdus.RefBody([]pdus.Field{{Spec: "t", Kind: "tlv"}}, &pdus.Values{F: map[string]any{"t": l}})
}

// strictWalk returns the triplets completely present in b, walking from offset 0.
func strictWalk(b []byte) (l []pdus.TLV, clean bool) {
	for len(b) > 0 {
		if len(b) < 4 {
			return l, false
		}
		n := int(binary.BigEndian.Uint16(b[2:]))
		if len(b) < 4+n {
			return l, false
		}
		l = append(l, pdus.TLV{Tag: binary.BigEndian.Uint16(b), Len: uint16(n), Val: append([]byte(nil), b[4:4+n]...)})
		b = b[4+n:]
	}
	return l, true
}

type parsers struct {
	name string
	run  func(b []byte) (set []pdus.TLV, err error)
}

// reserialised: a container a parser returned, serialised again, must be the triplets of the set it reports
// (a gateway forwards what it parsed). Checked before the caller touches the container.
func reserialised(name string, wire []byte, out []pdus.TLV) error {
	l2, clean := strictWalk(wire)
	if !clean || pdus.CanonTLV(l2) != pdus.CanonTLV(out) {
		return fmt.Errorf("verifmon: %s: the parsed container serialises to %d octets that do not parse back to the set it reports (clean=%v, %d of %d parameters)", name, len(wire), clean, len(l2), len(out))
	}
	return nil
}

func containerParsers() []parsers {
	return []parsers{
		// after reading the result the caller uses the container it was given (adds a parameter of its own):
		// that is the caller's business and must never show up in what a later parse reports
		{"smpp.ReadTLVs", func(b []byte) ([]pdus.TLV, error) {
			m, err := smpp.ReadTLVs(packet.NewPacketReader(b))
			out := pdus.ExtractTLVs(reflect.ValueOf(m))
			if err == nil {
				err = reserialised("smpp.ReadTLVs", m.Bytes(), out)
			}
			m.SetTLV(smpp.NewTLV(0xFFFE, []byte("caller's own")))
			for _, t := range m { // ... and edits the values of its own copy
				scribbleOwn(t.Value())
			}
			return out, err
		}},
		{"smpp.ReadTLVs1", func(b []byte) ([]pdus.TLV, error) {
			r := packet.NewPacketReader(b)
			m := smpp.ReadTLVs1(r)
			out := pdus.ExtractTLVs(reflect.ValueOf(m))
			err := r.Error()
			if err == nil {
				err = reserialised("smpp.ReadTLVs1", m.Bytes(), out)
			}
			m.SetTLV(smpp.NewTLV(0xFFFE, []byte("caller's own")))
			for _, t := range m { // ... and edits the values of its own copy
				scribbleOwn(t.Value())
			}
			return out, err
		}},
		{"smgp.ParseOptions", func(b []byte) ([]pdus.TLV, error) {
			m, err := smgp.ParseOptions(b)
			out := pdus.ExtractTLVs(reflect.ValueOf(m))
			if err == nil {
				err = reserialised("smgp.ParseOptions", m.Serialize(), out)
			}
			m.Add(smgp.NewOption(smgp.Tag(0xFFFE), []byte("caller's own")))
			for _, o := range m {
				scribbleOwn(o.Value())
			}
			return out, err
		}},
		{"smgp.ReadOptions", func(b []byte) ([]pdus.TLV, error) {
			r := packet.NewPacketReader(b)
			m := smgp.ReadOptions(r)
			out := pdus.ExtractTLVs(reflect.ValueOf(m))
			err := r.Error()
			if err == nil {
				err = reserialised("smgp.ReadOptions", m.Serialize(), out)
			}
			m.Add(smgp.NewOption(smgp.Tag(0xFFFE), []byte("caller's own")))
			for _, o := range m {
				scribbleOwn(o.Value())
			}
			return out, err
		}},
	}
}

// scribbleOwn: the caller edits a value of a container it was given (clears a flag, masks a number).
func scribbleOwn(v []byte) {
	for i := range v {
		v[i] = ^v[i]
	}
}

func runParser(c *fw.Case, p parsers, b []byte) (set []pdus.TLV, err error, ok bool) {
	in := spareView(b) // a window of a larger buffer: what follows belongs to something else
	arm(c, len(b))
	pan, val, st := fw.Try(func() { set, err = p.run(in) })
	disarm(c)
	c.Evals(1)
	if pan {
		c.Failf(fw.PanicSig(val, st)+"/"+p.name, "%s on %s: %v\n%s", p.name, hx(b), val, st)
		return nil, nil, false
	}
	return set, err, true
}

func init() {
	fw.Register(&fw.Prop{
		ID:        "C16",
		Technique: "runtime monitor: reference triplet emitter/strict parser as oracle for both containers and both parsers of each; no-fabrication check on arbitrary byte strings; boundary lengths 65531..70000; step budget",
		Rule: "sets of 0..32 parameters with tags 0..65535 and value lengths incl. {0,1,65531,65532,65535,65536,70000}; well-formed triplet sequences in any order with duplicates for parser agreement; arbitrary and surgically damaged byte strings for the no-fabrication clause; Add on nil/empty containers; typed accessors on short values; " +
			"distinct_nontrivial = distinct (stage, entry point, input class, outcome) combinations",
		Assumptions: []string{
			"duplicates: a map-backed container keeps the last occurrence; both parsers of a container must agree with the strict reference walk under last-wins",
			"'a length that disagrees with the emitted value' is read on the emitted triplet itself: BE16(out[2:4]) == len(out)-4",
		},
		Stages: []*fw.Stage{
			{
				Name: "roundtrip", N: q(60000, 3000000),
				Run: func(c *fw.Case) {
					r := c.R
					n := r.Range(0, 6)
					if r.Chance(1, 10) {
						n = r.Range(7, 32)
					}
					seen := map[uint16]bool{}
					var l []pdus.TLV
					for len(l) < n {
						tag := uint16(r.U32())
						if r.Bool() {
							tag = uint16(r.Intn(0x20))
						}
						if seen[tag] {
							continue
						}
						seen[tag] = true
						ln := r.Pick(0, 1, 2, 3, 16, 255, 256)
						if r.Chance(1, 40) {
							ln = r.Pick(65531, 65535, 40000)
						}
						l = append(l, pdus.TLV{Tag: tag, Len: uint16(ln), Val: r.Bytes(ln)})
					}
					if c.Idx%17 == 0 { // (17, not 16: with 16 shards every such case would land on shard 0)
						// several long values together: more than 65536 octets follow some triplet headers
						l = nil
						seen = map[uint16]bool{}
						for _, ln := range [][]int{{65535, 10}, {10, 65535}, {40000, 40000}, {65535, 65535, 1}, {1, 65531, 2, 65531}}[c.Idx/17%5] {
							tag := uint16(r.U32())
							for seen[tag] {
								tag++
							}
							seen[tag] = true
							l = append(l, pdus.TLV{Tag: tag, Len: uint16(ln), Val: r.Bytes(ln)})
						}
						n = len(l)
						// exactly this order on the wire, through all four parsers
						wire := emit(l)
						for _, p := range containerParsers() {
							set, err, ok := runParser(c, p, wire)
							if ok && (err != nil || pdus.CanonTLV(set) != pdus.CanonTLV(l)) {
								c.Failf("wellformed-misparsed/"+p.name, "%s on a well-formed sequence of %d triplets with value lengths %v: err=%v, got %d parameters", p.name, len(l), lensOf(l), err, len(set))
							}
						}
					}
					want := pdus.CanonTLV(l)
					// container -> bytes
					tl := smpp.TLVs{}
					op := smgp.Options{}
					for _, x := range l {
						tl.SetTLV(smpp.NewTLV(x.Tag, append([]byte(nil), x.Val...)))
						op.Add(smgp.NewOption(smgp.Tag(x.Tag), append([]byte(nil), x.Val...)))
					}
					var b1, b2 []byte
					var olen int
					if pan, val, st := fw.Try(func() { b1 = tl.Bytes(); b2 = op.Serialize(); olen = op.Len() }); pan {
						c.Failf("serialize-"+fw.PanicSig(val, st), "set %s: %v\n%s", trunc200(want), val, st)
						return
					}
					// what earlier calls returned stays what it was
					for _, h := range heldSerial {
						if !bytes.Equal(h.live, h.snap) {
							c.Failf("serialized-bytes-changed-later/"+h.name, "bytes returned by %s in the previous case now read %s, were %s", h.name, hx(h.live), hx(h.snap))
						}
					}
					heldSerial = heldSerial[:0]
					for name, b := range map[string][]byte{"smpp.TLVs.Bytes": b1, "smgp.Options.Serialize": b2} {
						if len(b) > 0 && len(b) < 4096 {
							heldSerial = append(heldSerial, heldPacket{name, b, append([]byte(nil), b...)})
						}
						w, clean := strictWalk(b)
						if !clean || pdus.CanonTLV(w) != want {
							c.Failf("serialize-lossy/"+name, "%s of the set %s gives %s (strict parse clean=%v): %s", name, trunc200(want), trunc200(pdus.CanonTLV(w)), clean, hx(b))
						}
					}
					if olen != len(b2) {
						c.Failf("options-len-disagrees", "Options.Len()=%d but Serialize() has %d octets (set %s)", olen, len(b2), trunc200(want))
					}
					// bytes -> both parsers of each container
					for _, p := range containerParsers() {
						src := b1
						if p.name[:4] == "smgp" {
							src = b2
						}
						set, err, ok := runParser(c, p, src)
						if !ok {
							continue
						}
						if err != nil || pdus.CanonTLV(set) != want {
							c.Failf("parse-lossy/"+p.name, "%s does not give back the serialised set: err=%v got %s want %s", p.name, err, trunc200(pdus.CanonTLV(set)), trunc200(want))
						}
					}
					c.Cover(fmt.Sprintf("roundtrip/n%d", bucket(n)))
					c.Sample(2, map[string]any{"set": trunc200(want), "tlv_bytes": hx(b1)})
				},
			},
			{
				Name: "agreement", N: q(60000, 3000000),
				Run: func(c *fw.Case) {
					// well-formed triplet sequences, any order, duplicates allowed
					r := c.R
					n := r.Range(0, 8)
					var l []pdus.TLV
					for i := 0; i < n; i++ {
						tag := uint16(r.Intn(6))
						switch r.Intn(4) {
						case 0:
							tag = uint16(r.U32())
						case 1: // tags the SMPP 3.4 / SMGP 3.0 documents name
							tag = []uint16{0x0005, 0x0006, 0x001D, 0x001E, 0x0201, 0x0204, 0x020A, 0x020C, 0x0381, 0x0420, 0x0424, 0x0425, 0x0427, 0x1204, 0x130C, 0x1380, 0x1383, 0x0001, 0x0002, 0x0003, 0x0007, 0x000C, 0x0010}[r.Intn(23)]
						}
						ln := r.Pick(0, 1, 2, 5, 40)
						val := r.Bytes(ln)
						if ln > 0 && r.Chance(1, 3) {
							val[ln-1] = 0 // a C-octet string with its terminator
							if ln > 1 && r.Bool() {
								val[0] = 0
							}
						}
						l = append(l, pdus.TLV{Tag: tag, Len: uint16(ln), Val: val})
					}
					b := emit(l)
					want := pdus.CanonTLV(l) // last occurrence wins
					res := map[string]string{}
					for _, p := range containerParsers() {
						set, err, ok := runParser(c, p, b)
						if !ok {
							return
						}
						res[p.name] = fmt.Sprintf("err=%v|%s", err != nil, pdus.CanonTLV(set))
						if err != nil || pdus.CanonTLV(set) != want {
							c.Failf("wellformed-misparsed/"+p.name, "%s on the well-formed sequence %s: err=%v got %s, want %s", p.name, hx(b), err, trunc200(pdus.CanonTLV(set)), trunc200(want))
						}
					}
					if res["smpp.ReadTLVs"] != res["smpp.ReadTLVs1"] {
						c.Failf("parsers-disagree/smpp", "ReadTLVs=%s ReadTLVs1=%s on %s", trunc200(res["smpp.ReadTLVs"]), trunc200(res["smpp.ReadTLVs1"]), hx(b))
					}
					if res["smgp.ParseOptions"] != res["smgp.ReadOptions"] {
						c.Failf("parsers-disagree/smgp", "ParseOptions=%s ReadOptions=%s on %s", trunc200(res["smgp.ParseOptions"]), trunc200(res["smgp.ReadOptions"]), hx(b))
					}
					c.Echo("containers", func() string {
						var sb strings.Builder
						for _, p := range containerParsers() {
							set, err := p.run(append([]byte(nil), b...))
							fmt.Fprintf(&sb, "%s:err=%v|%016x;", p.name, err != nil, fw.HashStr(pdus.CanonTLV(set)))
						}
						return sb.String()
					})
					dup := "unique"
					if len(pdus.CanonTLV(l)) != len(pdus.CanonTLV(append([]pdus.TLV(nil), l...))) || hasDup(l) {
						dup = "duplicates"
					}
					c.Cover(fmt.Sprintf("agreement/n%d/%s", n, dup))
				},
			},
			{
				Name: "nofabrication", N: q(150000, 6000000),
				Run: func(c *fw.Case) {
					r := c.R
					var b []byte
					kind := ""
					if r.Bool() {
						b, kind = tlvSurgery(r)
					} else {
						b, kind = r.Bytes(r.Range(0, 48)), "random"
						if r.Chance(1, 3) {
							for i := range b {
								if r.Chance(2, 3) {
									b[i] = 0
								}
							}
							kind = "sparse"
						}
					}
					present, _ := strictWalk(b)
					have := map[string]bool{}
					for _, x := range present {
						have[fmt.Sprintf("%04x:%d:%x", x.Tag, x.Len, x.Val)] = true
					}
					for _, p := range containerParsers() {
						set, err, ok := runParser(c, p, b)
						if !ok {
							continue
						}
						for _, x := range set {
							k := fmt.Sprintf("%04x:%d:%x", x.Tag, x.Len, x.Val)
							if !have[k] || int(x.Len) != len(x.Val) {
								c.Failf("fabricated-parameter/"+p.name, "%s reports parameter tag=%#04x len=%d value=%s that is not completely present in the input %s (err=%v)", p.name, x.Tag, x.Len, hx(x.Val), hx(b), err)
								break
							}
						}
						c.Cover("nofabrication/" + p.name + "/" + kind + "/" + outcome(err))
					}
				},
			},
			{
				Name: "longvalues", Exhaustive: "value lengths 65529..65540 and 69990..70000 for both containers",
				N: func(fw.Tier) uint64 { return 24 },
				Run: func(c *fw.Case) {
					n := 65529 + int(c.Idx)
					if c.Idx >= 12 {
						n = 69990 + int(c.Idx-12)
					}
					val := c.R.Bytes(n)
					tag := uint16(0x1234)
					for name, f := range map[string]func() []byte{
						"smpp.TLV.Bytes":         func() []byte { return smpp.NewTLV(tag, val).Bytes() },
						"smpp.TLVs.Bytes":        func() []byte { m := smpp.TLVs{}; m.SetTLV(smpp.NewTLV(tag, val)); return m.Bytes() },
						"smgp.Option.Bytes":      func() []byte { return smgp.NewOption(smgp.Tag(tag), val).Bytes() },
						"smgp.Options.Serialize": func() []byte { m := smgp.Options{}; m.Add(smgp.NewOption(smgp.Tag(tag), val)); return m.Serialize() },
					} {
						var out []byte
						c.Evals(1)
						if pan, v, st := fw.Try(func() { out = f() }); pan {
							c.Failf("long-value-"+fw.PanicSig(v, st)+"/"+name, "%s with a %d-octet value: %v\n%s", name, n, v, st)
							continue
						}
						if len(out) == 0 {
							c.Cover("longvalues/" + name + "/refused")
							continue // refused: nothing emitted
						}
						if len(out) < 4 || int(binary.BigEndian.Uint16(out[2:4])) != len(out)-4 || binary.BigEndian.Uint16(out) != tag {
							c.Failf("long-value-inconsistent/"+name, "%s with a %d-octet value emits %d octets whose length field says %d", name, n, len(out), binary.BigEndian.Uint16(out[2:4]))
							continue
						}
						if n <= 65535 && len(out)-4 != n {
							c.Failf("long-value-truncated-in-range/"+name, "%s with a %d-octet value (fits 16 bits) emits only %d value octets", name, n, len(out)-4)
						}
						c.Cover(fmt.Sprintf("longvalues/%s/%s", name, map[bool]string{true: "in-range", false: "truncated-consistently"}[n <= 65535]))
					}
					// every length the containers REPORT agrees with what they emit: Option.Len against the value octets of
					// Option.Bytes, Options.Len against len(Serialize)
					c.Evals(1)
					if pan, v, st := fw.Try(func() {
						o := smgp.NewOption(smgp.Tag(tag), val)
						if b := o.Bytes(); len(b) >= 4 && o.Len() != len(b)-4 {
							c.Failf("reported-length-disagrees/smgp.Option.Len", "a %d-octet value: Option.Len()=%d, Bytes() emits %d value octets", n, o.Len(), len(b)-4)
						}
						m := smgp.Options{}
						m.Add(o)
						m.Add(smgp.NewOption(smgp.TAG_TP_udhi, []byte{1}))
						if l, b := m.Len(), m.Serialize(); l != len(b) {
							c.Failf("reported-length-disagrees/smgp.Options.Len", "a %d-octet value and a 1-octet value: Options.Len()=%d, Serialize() emits %d octets", n, l, len(b))
						}
					}); pan {
						c.Failf("long-value-"+fw.PanicSig(v, st)+"/Len", "Len with a %d-octet value: %v\n%s", n, v, st)
					}
				},
			},
			{
				Name: "longvalue-neighbours", Exhaustive: "an oversize value (65532..70000 octets) beside 1..3 ordinary parameters, both containers, 8 serialisations each (map order)",
				N: func(fw.Tier) uint64 { return 48 },
				Run: func(c *fw.Case) {
					n := []int{65532, 65535, 65536, 65540, 69999, 70000}[c.Idx%6]
					big := c.R.Bytes(n)
					small := map[uint16][]byte{}
					for len(small) < 1+int(c.Idx/6)%3 {
						small[uint16(c.R.Range(1, 0x1000))] = nonNul(c.R, c.R.Range(1, 6))
					}
					delete(small, 0x1234)
					builds := map[string]func() []byte{
						"smpp.TLVs.Bytes": func() []byte {
							m := smpp.TLVs{}
							m.SetTLV(smpp.NewTLV(0x1234, big))
							for t, v := range small {
								m.SetTLV(smpp.NewTLV(t, v))
							}
							return m.Bytes()
						},
						"smgp.Options.Serialize": func() []byte {
							m := smgp.Options{}
							m.Add(smgp.NewOption(smgp.Tag(0x1234), big))
							for t, v := range small {
								m.Add(smgp.NewOption(smgp.Tag(t), v))
							}
							return m.Serialize()
						},
					}
					for name, f := range builds {
						for rep := 0; rep < 8; rep++ {
							var out []byte
							c.Evals(1)
							if pan, v, st := fw.Try(func() { out = f() }); pan {
								c.Failf("long-value-"+fw.PanicSig(v, st)+"/"+name, "%s with a %d-octet value beside %d ordinary parameters: %v\n%s", name, n, len(small), v, st)
								break
							}
							l, clean := strictWalk(out)
							if !clean {
								c.Failf("long-value-inconsistent/"+name+"/neighbours", "%s with a %d-octet value beside %d ordinary parameters emits %d octets that are not a sequence of complete triplets", name, n, len(small), len(out))
								break
							}
							seen := map[uint16]int{}
							bad := ""
							for _, t := range l {
								seen[t.Tag]++
								switch want, ok := small[t.Tag]; {
								case t.Tag == 0x1234:
									if n <= 65535 && len(t.Val) != n || len(t.Val) > n || !bytes.Equal(t.Val, big[:len(t.Val)]) {
										bad = fmt.Sprintf("the oversize parameter comes out as %d octets that are not a prefix of its value", len(t.Val))
									}
								case !ok:
									bad = fmt.Sprintf("tag %#04x was never added", t.Tag)
								case !bytes.Equal(want, t.Val):
									bad = fmt.Sprintf("tag %#04x carries %s, added as %s", t.Tag, hx(t.Val), hx(want))
								}
							}
							for t := range small {
								if seen[t] != 1 {
									bad = fmt.Sprintf("tag %#04x is emitted %d times", t, seen[t])
								}
							}
							if seen[0x1234] > 1 {
								bad = "the oversize parameter is emitted more than once"
							}
							if bad != "" {
								c.Failf("long-value-damages-neighbours/"+name, "%s with a %d-octet value beside %d ordinary parameters: %s", name, n, len(small), bad)
								break
							}
							c.Cover(fmt.Sprintf("longvalue-neighbours/%s/%d/%v", name, len(small), seen[0x1234] == 1))
						}
					}
				},
			},
			{
				Name: "accessors", N: func(fw.Tier) uint64 { return 64 },
				Run: func(c *fw.Case) {
					// Add on an empty container takes effect
					opt := smgp.NewOption(smgp.TAG_TP_udhi, []byte{1})
					empty := smgp.Options{}
					empty.Add(opt)
					if _, ok := empty[smgp.TAG_TP_udhi]; !ok {
						c.Failf("add-lost/empty-map", "Options{}.Add(opt) did not store the option")
					}
					var nilOpts smgp.Options
					if pan, v, st := fw.Try(func() { nilOpts.Add(opt) }); pan {
						c.Failf("add-"+fw.PanicSig(v, st), "Add on a nil Options: %v\n%s", v, st)
					} else if _, ok := nilOpts[smgp.TAG_TP_udhi]; !ok {
						c.Failf("add-lost/nil-map", "var o smgp.Options; o.Add(opt): the option is silently lost (Add has a value receiver and allocates a map it then drops)")
					}
					var nilTLVs smpp.TLVs
					nilTLVs.SetTLV(smpp.NewTLV(5, []byte{9}))
					if _, ok := nilTLVs[5]; !ok {
						c.Failf("settlv-lost/nil-map", "var t smpp.TLVs; t.SetTLV(x): the parameter is lost")
					}
					// typed accessor tolerates short values
					for _, val := range [][]byte{{}, {0}, {1}, {1, 2}, nil} {
						o := smgp.Options{}
						o.Add(smgp.NewOption(smgp.TAG_TP_udhi, val))
						var got uint8
						c.Evals(1)
						if pan, v, st := fw.Try(func() { got = o.TP_udhi() }); pan {
							c.Failf("accessor-"+fw.PanicSig(v, st), "TP_udhi() with a %d-octet value: %v\n%s", len(val), v, st)
							continue
						}
						want := uint8(0)
						if len(val) > 0 {
							want = val[0]
						}
						if got != want {
							c.Failf("accessor-value", "TP_udhi() with value %s = %d, want %d", hx(val), got, want)
						}
					}
					if got := (smgp.Options{}).TP_udhi(); got != 0 {
						c.Failf("accessor-value", "TP_udhi() on an empty container = %d", got)
					}
					// parsed containers too
					for _, raw := range [][]byte{{0, 2, 0, 0}, {0, 2, 0, 1, 7}} {
						o, err := smgp.ParseOptions(raw)
						if err == nil {
							fw.Try(func() { _ = o.TP_udhi() })
							if pan, v, st := fw.Try(func() { _ = o.TP_udhi() }); pan {
								c.Failf("accessor-"+fw.PanicSig(v, st), "TP_udhi() after ParseOptions(%s): %v\n%s", hx(raw), v, st)
							}
						}
					}
					c.Cover(fmt.Sprintf("accessors/%d", c.Idx%4))
				},
			},
		},
	})
}

// heldSerial: serialised containers of the previous case (one goroutine per worker process).
var heldSerial []heldPacket

func hasDup(l []pdus.TLV) bool {
	seen := map[uint16]bool{}
	for _, x := range l {
		if seen[x.Tag] {
			return true
		}
		seen[x.Tag] = true
	}
	return false
}

func lensOf(l []pdus.TLV) []int {
	out := make([]int, len(l))
	for i := range l {
		out[i] = len(l[i].Val)
	}
	return out
}
