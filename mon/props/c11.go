package props

import (
	"bytes"
	"encoding/binary"
	"fmt"

	sms "github.com/hujm2023/go-sms-protocol"

	"verifmon/fw"
	"verifmon/pdus"
)

// C11 — decode -> encode -> decode is stable; canonical images re-encode bit-for-bit.

type span struct {
	f          *pdus.Field
	start, end int
}

func layoutOf(t *pdus.Type, v *pdus.Values) []span {
	pos := t.HeaderLen()
	var out []span
	for i := range t.Fields {
		n := len(pdus.RefBody([]pdus.Field{t.Fields[i]}, v))
		out = append(out, span{&t.Fields[i], pos, pos + n})
		pos += n
	}
	return out
}

// relay runs b through decode -> encode -> decode and judges stability.
// relayObjs: one long-lived PDU value per type and worker process — a receive loop that decodes every frame into the
// same value. What an earlier frame left in it must not show up in the relayed PDU.
var relayObjs = map[string]sms.PDU{}

func relay(c *fw.Case, t *pdus.Type, b []byte, canonical bool, class string) {
	lt := t.Lib()
	in := append([]byte(nil), b...)
	if c.R.Chance(1, 6) {
		refusedEncodeFirst(c)
	}
	d1 := t.New()
	if canonical && c.R.Chance(1, 3) {
		if o, ok := relayObjs[t.Key()]; ok {
			d1 = o
			class += "+reused-object"
		} else {
			relayObjs[t.Key()] = d1
		}
	}
	err, psig, pd := decode(c, d1, b)
	c.Count("inputs/"+map[bool]string{true: "canonical", false: "mutated"}[canonical], 1)
	if psig != "" {
		c.Failf("decode-"+psig+"/"+t.Key(), "input=%s\n%s", hx(in), pd)
		return
	}
	if err != nil {
		if canonical {
			c.Failf("canonical-rejected/"+t.Key(), "the decoder rejects an image its own encoder produced: %v\nimage=%s", err, hx(in))
		}
		c.Cover("relay/" + t.Key() + "/" + class + "/rejected")
		return
	}
	c.Count("accepted/"+map[bool]string{true: "canonical", false: "mutated"}[canonical], 1)
	v1 := pdus.Extract(lt, d1)
	e, eerr, psig, pd := encode(c, d1)
	if psig != "" {
		c.Failf("reencode-"+psig+"/"+t.Key(), "an accepted PDU cannot be re-encoded (%s)\ninput=%s\ndecoded: %s\n%s", class, hx(in), pdus.Describe(lt, v1), pd)
		return
	}
	if eerr != nil {
		c.Failf("reencode-error/"+t.Key()+"/"+class, "an accepted PDU cannot be re-encoded: %v\ninput=%s\ndecoded: %s", eerr, hx(in), pdus.Describe(lt, v1))
		return
	}
	// the documented one-time normalisation (CMPP 2.0 submit 0/0 -> 1/1) is applied to d1 before comparing
	if t.Key() == "cmpp20.PduSubmit/CMPP_SUBMIT" && v1.U("Pk_total") == 0 && v1.U("Pk_number") == 0 {
		v1.F["Pk_total"], v1.F["Pk_number"] = uint64(1), uint64(1)
	}
	if int(be32(e)) != len(e) {
		c.Failf("reencoded-length-prefix/"+t.Key(), "the re-encoded image announces %d octets but has %d\ninput=%s\nre-encoded=%s", be32(e), len(e), hx(in), hx(e))
	}
	e2 := append([]byte(nil), e...)
	d2 := t.New()
	err2, psig, pd := decode(c, d2, e)
	if psig != "" {
		c.Failf("redecode-"+psig+"/"+t.Key(), "re-encoded image %s\n%s", hx(e2), pd)
		return
	}
	if err2 != nil {
		c.Failf("redecode-error/"+t.Key()+"/"+class, "the re-encoded image is rejected: %v\ninput=%s\nre-encoded=%s", err2, hx(in), hx(e2))
		return
	}
	v2 := pdus.Extract(lt, d2)
	if int(be32(in)) == len(in) && pdus.HeaderLength(t, d2) != pdus.HeaderLength(t, d1) && len(e2) == len(in) {
		// same size, well-formed length word going in: the relayed PDU must carry the same length word
		c.Failf("relay-unstable/"+t.Key()+"/header.length", "header length %d after the first decode, %d after relay (input %d octets, re-encoded %d octets)\ninput=%s\nre-encoded=%s",
			pdus.HeaderLength(t, d1), pdus.HeaderLength(t, d2), len(in), len(e2), hx(in), hx(e2))
	}
	for _, one := range pdus.Diff(lt, v1, v2) {
		c.Failf("relay-unstable/"+t.Key()+"/"+firstField([]string{one}), "decode->encode->decode changed the PDU: %s\ninput=%s\nre-encoded=%s", one, hx(in), hx(e2))
	}
	if canonical {
		mand := pdus.MandatoryLen(t, in)
		if t.Key() == "smgp30.ActiveTestResp/Active_Test_Resp" {
			mand = len(in)
		}
		ok := mand >= 0 && len(e2) >= mand && bytes.Equal(e2[:mand], in[:mand])
		if ok {
			a, e1 := tlvTail(e2[mand:])
			bb, e3 := tlvTail(in[mand:])
			ok = e1 == nil && e3 == nil && a == bb
		}
		if !ok {
			c.Failf("canonical-not-reproduced/"+t.Key(), "re-encoding a canonical image does not reproduce it bit-for-bit (optional parameters as a set)\n   image=%s\nre-encoded=%s", hx(in), hx(e2))
		}
	}
	c.Echo("relay/"+t.Key(), func() string {
		d := t.New()
		if err := d.IDecode(append([]byte(nil), in...)); err != nil {
			return "rejected"
		}
		desc := fmt.Sprintf("%016x", fw.HashStr(pdus.Describe(lt, pdus.Extract(lt, d))))
		e, err := d.IEncode()
		return desc + " / " + canonImage(t, e, err)
	})
	c.Cover("relay/" + t.Key() + "/" + class + "/stable")
	c.Sample(2, map[string]any{"type": t.Key(), "class": class, "input": hx(in), "re_encoded": hx(e2), "canonical": canonical})
}

// mutateAccepted turns a reference image into an odd-but-parseable one.
func mutateAccepted(c *fw.Case, t *pdus.Type, v *pdus.Values, img []byte) ([]byte, string) {
	r := c.R
	spans := layoutOf(t, v)
	m := append([]byte(nil), img...)
	hasTLV := len(t.Fields) > 0 && t.Fields[len(t.Fields)-1].Kind == "tlv"
	pick := r.Intn(10)
	switch pick {
	case 9: // the last optional parameter's length overstates what is present / a bare option header ends the image
		if hasTLV {
			if l := v.F[t.Fields[len(t.Fields)-1].Spec].([]pdus.TLV); len(l) > 0 && r.Bool() {
				last := l[len(l)-1]
				off := len(m) - len(last.Val) - 2
				binary.BigEndian.PutUint16(m[off:], uint16(len(last.Val)+r.Range(1, 5)))
				return m, "option-length-overstated"
			}
			tag := uint16(0x1000 + r.Intn(0x100))
			m = append(m, byte(tag>>8), byte(tag), 0, byte(r.Range(1, 40)))
			binary.BigEndian.PutUint32(m, uint32(len(m)))
			return m, "bare-option-header-at-end"
		}
		return m, "plain"
	case 0, 1: // junk after the first NUL of fixed-width slots
		n := 0
		for _, s := range spans {
			if s.f.Kind == "fixed" {
				if i := bytes.IndexByte(m[s.start:s.end], 0); i >= 0 && s.start+i+1 < s.end {
					for k := s.start + i + 1; k < s.end; k++ {
						m[k] = byte(1 + r.Intn(255))
					}
					n++
				}
			}
			if s.f.Kind == "list" {
				for p := s.start; p+s.f.W <= s.end; p += s.f.W {
					if i := bytes.IndexByte(m[p:p+s.f.W], 0); i >= 0 && i+1 < s.f.W {
						for k := p + i + 1; k < p+s.f.W; k++ {
							m[k] = byte(1 + r.Intn(255))
						}
						n++
					}
				}
			}
		}
		if n > 0 {
			return m, "junk-after-nul"
		}
		return m, "plain"
	case 8: // a NUL-terminated string longer than the width its table row names (the terminator is what ends it)
		var cs []span
		for _, s := range spans {
			if s.f.Kind == "cstr" && s.end > s.start {
				cs = append(cs, s)
			}
		}
		if len(cs) == 0 {
			return m, "plain"
		}
		s := cs[r.Intn(len(cs))]
		have := s.end - s.start - 1
		pad := s.f.W - 1 - have
		if pad < 0 {
			pad = 0
		}
		extra := nonNul(r, pad+r.Pick(1, 1, 2, 8, 40))
		m = append(m[:s.end-1:s.end-1], append(extra, m[s.end-1:]...)...)
		binary.BigEndian.PutUint32(m, uint32(len(m)))
		return m, "over-long-cstring"
	case 2: // arbitrary header length word
		binary.BigEndian.PutUint32(m, uint32(r.Pick(0, 1, 12, len(m)-1, len(m)+1, 0x7fffffff, int(r.U32()>>1))))
		return m, "odd-length-word"
	case 3: // trailing garbage after a layout without optional tail
		if !hasTLV && t.HKind != "smpp" {
			return append(m, r.Bytes(r.Range(1, 16))...), "trailing-garbage"
		}
		return m, "plain"
	case 4: // duplicate optional tags
		if hasTLV {
			if l := v.F[t.Fields[len(t.Fields)-1].Spec].([]pdus.TLV); len(l) > 0 {
				d := l[r.Intn(len(l))]
				val := r.Bytes(r.Range(0, 12))
				m = append(m, byte(d.Tag>>8), byte(d.Tag), byte(len(val)>>8), byte(len(val)))
				m = append(m, val...)
				binary.BigEndian.PutUint32(m, uint32(len(m)))
				return m, "duplicate-tag"
			}
		}
		return m, "plain"
	case 5: // maximum-length optional values
		if hasTLV {
			n := r.Pick(65531, 65532, 65533, 65534, 65535)
			tag := uint16(0x1000 + r.Intn(0x100))
			m = append(m, byte(tag>>8), byte(tag), byte(n>>8), byte(n))
			m = append(m, r.Bytes(n)...)
			binary.BigEndian.PutUint32(m, uint32(len(m)))
			return m, fmt.Sprintf("max-length-option-%d", n)
		}
		return m, "plain"
	case 6: // extreme numerics in every integer field that is not a count/length
		derived := map[string]bool{}
		for _, f := range t.Fields {
			derived[f.Count], derived[f.Len] = true, true
		}
		for _, s := range spans {
			if isIntKind(s.f.Kind) && !derived[s.f.Spec] {
				x := byte(r.Pick(0, 0xff, 0x80, 0x7f))
				for k := s.start; k < s.end; k++ {
					m[k] = x
				}
			}
		}
		return m, "extreme-numerics"
	case 7: // empty value with junk: NUL in the first position of fixed slots
		for _, s := range spans {
			if s.f.Kind == "fixed" && s.end > s.start && r.Bool() {
				m[s.start] = 0
			}
		}
		return m, "nul-first"
	default:
		return m, "plain"
	}
}

func isIntKind(k string) bool { return k == "u8" || k == "u16" || k == "u32" || k == "u64" }

func init() {
	ts := func() *pdus.Tables { return pdus.Load() }
	fw.Register(&fw.Prop{
		ID:        "C11",
		Technique: "runtime monitor: relay oracle — IDecode(b) -> IEncode -> IDecode compared field-wise, canonical images compared bit-for-bit — over canonical and mutated-but-accepted images",
		Rule: "canonical images of generated values (as C01) and reference images mutated so that they stay parseable (junk after NULs in fixed slots, odd header length words, trailing garbage, duplicate optional tags, optional values of 65531..65535 octets, extreme numerics, empty values); each accepted input is re-encoded and re-decoded; " +
			"distinct_nontrivial = distinct (PDU type, mutation class, accepted/rejected) outcomes; a run in which fewer than half of the mutated inputs were accepted is inconclusive",
		Assumptions: []string{
			"the one-time CMPP 2.0 submit normalisation Pk_total/Pk_number 0/0 -> 1/1 is applied to the first decode before comparing",
			"optional parameters compare as a set keyed by tag (a map-backed container cannot keep duplicates or order)",
		},
		Conclude: func(total *fw.Result) []string {
			in, acc := total.Counters["inputs/mutated"], total.Counters["accepted/mutated"]
			if in > 0 && acc*2 < in {
				return []string{fmt.Sprintf("only %d of %d mutated inputs were accepted by a decoder (fewer than half): the relay clause was hardly exercised", acc, in)}
			}
			return nil
		},
		Stages: []*fw.Stage{
			{
				Name: "canonical", N: q(250000, 16000000),
				Run: func(c *fw.Case) {
					t := libTypeIdx(ts(), c.Idx)
					force, class := -1, 0
					if c.R.Chance(1, 2) {
						force, class = pdus.SweepPick(t, c.R.Intn(pdus.SweepSize(t)))
					}
					v, _ := pdus.Gen(t, c.R, force, class)
					b, err, psig, _ := encode(c, pdus.Build(t, v))
					if psig != "" || err != nil {
						return // C01's business
					}
					relay(c, typeIdx(ts(), c.Idx), b, true, "canonical")
				},
			},
			{
				Name: "mutated", N: q(300000, 24000000),
				Run: func(c *fw.Case) {
					t := typeIdx(ts(), c.Idx)
					v, _ := pdus.Gen(t, c.R, -1, 0)
					img := pdus.RefEncode(t, v)
					m, class := mutateAccepted(c, t, v, img)
					relay(c, t, m, false, class)
				},
			},
		},
	})
}
