package props

import (
	"bytes"
	"crypto/md5"
	"encoding/binary"
	"fmt"
	"time"

	"github.com/hujm2023/go-sms-protocol/cmpp"
	"github.com/hujm2023/go-sms-protocol/cmpp/cmpp20"
	"github.com/hujm2023/go-sms-protocol/cmpp/cmpp30"
	"github.com/hujm2023/go-sms-protocol/smgp"
	"github.com/hujm2023/go-sms-protocol/smgp/smgp30"

	"verifmon/fw"
)

// C15 — login authenticators verify end to end for all credentials.

func md5of(parts ...[]byte) []byte {
	h := md5.Sum(bytes.Join(parts, nil))
	return h[:]
}

func ts10(ts uint32) []byte { return []byte(fmt.Sprintf("%010d", ts)) }

// refClientAuth: CMPP §7.4.1.1 (9 zero octets) / SMGP §6.2.2 (7 zero octets).
func refClientAuth(account, secret string, ts uint32, zeros int) []byte {
	return md5of([]byte(account), make([]byte, zeros), []byte(secret), ts10(ts))
}

// refServerAuth: MD5(Status + request authenticator + shared secret); status 1 octet (CMPP 2.0) or 4 (CMPP 3.0, SMGP).
func refServerAuth(status uint32, statusLen int, reqAuth []byte, secret string) []byte {
	sb := []byte{byte(status)}
	if statusLen == 4 {
		sb = make([]byte, 4)
		binary.BigEndian.PutUint32(sb, status)
	}
	return md5of(sb, reqAuth, []byte(secret))
}

type creds struct {
	account, secret string
	ts              uint32
	status          uint32
}

func genCreds(r *fw.Rng, maxAcct int) creds {
	var c creds
	c.account = string(nonNulASCII(r, r.Range(0, maxAcct)))
	n := r.Range(0, 32)
	sec := r.Bytes(n)
	for i := range sec {
		if sec[i] == 0 {
			sec[i] = 'x'
		}
	}
	c.secret = string(sec)
	switch r.Intn(6) {
	case 0:
		c.ts = 0
	case 1:
		c.ts = 1
	case 2:
		c.ts = 101000000
	case 3:
		c.ts = 1231235959
	default:
		c.ts = uint32(r.Range(1, 12))*100000000 + uint32(r.Range(1, 31))*1000000 + uint32(r.Intn(24))*10000 + uint32(r.Intn(60))*100 + uint32(r.Intn(60))
	}
	c.status = uint32(r.Pick(0, 1, 2, 3, 4, 5, 255, 256, int(r.U32()>>1)))
	return c
}

// withZeroAt searches nearby credentials until the client digest has 0x00 at position pos (0, 8 or 15).
func withZeroAt(r *fw.Rng, c creds, zeros int, pos int) creds {
	for i := 0; i < 20000; i++ {
		if refClientAuth(c.account, c.secret, c.ts, zeros)[pos] == 0 {
			return c
		}
		c.ts = (c.ts + 1) % 1231235960
		if i%64 == 63 {
			c.secret = string(nonNulASCII(r, r.Range(0, 16)))
		}
	}
	return c
}

func nulClass(d []byte) string {
	i := bytes.IndexByte(d, 0)
	switch {
	case i < 0:
		return "no-nul"
	case d[len(d)-1] == 0:
		return "nul-last"
	case i == 0:
		return "nul-first"
	}
	return "nul-inside"
}

// c15ForceTs: set by the first-use stage (the timestamp of the exchange is given, not drawn).
var c15ForceTs *uint32

func c15Case(c *fw.Case, targeted bool) {
	r := c.R
	fam := []string{"cmpp20", "cmpp30", "smgp30"}[c.Idx%3]
	zeros, maxAcct := 9, 6
	if fam == "smgp30" {
		zeros, maxAcct = 7, 8
	}
	cr := genCreds(r, maxAcct)
	if c15ForceTs != nil {
		cr.ts = *c15ForceTs
	}
	if targeted {
		cr = withZeroAt(r, cr, zeros, r.Pick(0, 8, 15))
	}
	want := refClientAuth(cr.account, cr.secret, cr.ts, zeros)
	ctx := fmt.Sprintf("%s account=%q secret=%s timestamp=%010d status=%d", fam, cr.account, hx([]byte(cr.secret)), cr.ts, cr.status)

	// (a) the library's generators equal the formula in the documents
	var libAuth []byte
	pan, val, st := fw.Try(func() {
		switch fam {
		case "cmpp20", "cmpp30":
			if s := cmpp.TimeStamp2Str(cr.ts); s != string(ts10(cr.ts)) {
				c.Failf("timestamp-string", "TimeStamp2Str(%d) = %q, expected the zero-padded 10-digit form %q", cr.ts, s, ts10(cr.ts))
			}
			libAuth = cmpp.GenConnectAuth(cr.account, cr.secret, cmpp.TimeStamp2Str(cr.ts))
		default:
			libAuth, _ = smgp30.VerifGenAuthenticatorClient(cr.account, cr.secret, cr.ts)
		}
	})
	c.Evals(1)
	if pan {
		c.Failf("generator-"+fw.PanicSig(val, st)+"/"+fam, "%s: %v\n%s", ctx, val, st)
		return
	}
	if !bytes.Equal(libAuth, want) {
		c.Failf("generator-formula/"+fam, "library authenticator %s differs from MD5(account + %d zero octets + secret + 10-digit timestamp) = %s\n%s", hx(libAuth), zeros, hx(want), ctx)
	}

	// (b) request: build -> encode -> decode -> receiver's recomputation from the DECODED timestamp equals the DECODED authenticator
	var recvAuth string
	var recvTs uint32
	var encErr, decErr error
	var img []byte
	pan, val, st = fw.Try(func() {
		switch fam {
		case "cmpp20":
			p := &cmpp20.PduConnect{Header: cmpp.NewHeader(0, cmpp.CommandConnect, r.U32()), SourceAddr: cr.account, AuthenticatorSource: string(libAuth), Version: 0x20, Timestamp: cr.ts}
			if img, encErr = p.IEncode(); encErr == nil {
				q := new(cmpp20.PduConnect)
				decErr = q.IDecode(img)
				recvAuth, recvTs = q.AuthenticatorSource, q.Timestamp
			}
		case "cmpp30":
			p := &cmpp30.Connect{Header: cmpp.NewHeader(0, cmpp.CommandConnect, r.U32()), SourceAddr: cr.account, AuthenticatorSource: string(libAuth), Version: 0x30, Timestamp: cr.ts}
			if img, encErr = p.IEncode(); encErr == nil {
				q := new(cmpp30.Connect)
				decErr = q.IDecode(img)
				recvAuth, recvTs = q.AuthenticatorSource, q.Timestamp
			}
		default:
			p := &smgp30.Login{Header: smgp.NewHeader(0, smgp.CommandLogin, r.U32()), ClientID: cr.account, AuthenticatorClient: string(libAuth), LoginMode: 2, Timestamp: cr.ts, Version: 0x30}
			if img, encErr = p.IEncode(); encErr == nil {
				q := new(smgp30.Login)
				decErr = q.IDecode(img)
				recvAuth, recvTs = q.AuthenticatorClient, q.Timestamp
			}
		}
	})
	c.Evals(1)
	switch {
	case pan:
		c.Failf("request-"+fw.PanicSig(val, st)+"/"+fam, "%s: %v\n%s", ctx, val, st)
	case encErr != nil || decErr != nil:
		c.Failf("request-transport-error/"+fam, "encode err=%v decode err=%v\n%s", encErr, decErr, ctx)
	default:
		recomputed := refClientAuth(cr.account, cr.secret, recvTs, zeros)
		if recvAuth != string(recomputed) {
			c.Failf("request-verification-fails/"+fam+"/"+nulClass(want), "after encode+decode the receiver recomputes %s but received authenticator %s (sent %s, timestamp sent %d received %d)\n%s\nimage=%s",
				hx(recomputed), hx([]byte(recvAuth)), hx(want), cr.ts, recvTs, ctx, hx(img))
		}
	}

	// (c) a receiver decodes from its receive buffer, reads the next frame into the same buffer and verifies only then:
	// the decoded authenticator and timestamp are values, they must not follow the buffer
	if !pan && encErr == nil && decErr == nil {
		buf := append([]byte(nil), img...)
		var heldAuth string
		var heldTs uint32
		var derr error
		p2, v2, s2 := fw.Try(func() {
			switch fam {
			case "cmpp20":
				q := new(cmpp20.PduConnect)
				derr = q.IDecode(buf)
				for i := range buf {
					buf[i] = byte(0x5a + i)
				}
				heldAuth, heldTs = q.AuthenticatorSource, q.Timestamp
			case "cmpp30":
				q := new(cmpp30.Connect)
				derr = q.IDecode(buf)
				for i := range buf {
					buf[i] = byte(0x5a + i)
				}
				heldAuth, heldTs = q.AuthenticatorSource, q.Timestamp
			default:
				q := new(smgp30.Login)
				derr = q.IDecode(buf)
				for i := range buf {
					buf[i] = byte(0x5a + i)
				}
				heldAuth, heldTs = q.AuthenticatorClient, q.Timestamp
			}
		})
		c.Evals(1)
		if p2 {
			c.Failf("request-"+fw.PanicSig(v2, s2)+"/"+fam, "%s: %v\n%s", ctx, v2, s2)
		} else if derr == nil && recvAuth == string(refClientAuth(cr.account, cr.secret, recvTs, zeros)) {
			if heldAuth != string(refClientAuth(cr.account, cr.secret, heldTs, zeros)) {
				c.Failf("request-verification-fails-after-buffer-reuse/"+fam, "the authenticator decoded from a receive buffer reads %s once the buffer holds the next frame (sent %s): the decoded field follows the buffer\n%s", hx([]byte(heldAuth)), hx(want), ctx)
			}
		}
	}

	// response: AuthenticatorISMG / AuthenticatorServer = MD5(Status + request authenticator + secret)
	statusLen := 4
	if fam == "cmpp20" {
		statusLen = 1
		cr.status &= 0xff
	}
	wantResp := refServerAuth(cr.status, statusLen, want, cr.secret)
	if targeted && r.Bool() {
		// look for a response digest with a zero octet as well
		for i := 0; i < 3000 && bytes.IndexByte(wantResp, 0) < 0; i++ {
			cr.status = (cr.status + 1)
			if statusLen == 1 {
				cr.status &= 0xff
			}
			wantResp = refServerAuth(cr.status, statusLen, want, cr.secret)
		}
	}
	if fam != "smgp30" {
		sb := []byte{byte(cr.status)}
		if statusLen == 4 {
			sb = make([]byte, 4)
			binary.BigEndian.PutUint32(sb, cr.status)
		}
		if got := cmpp.GenConnectRespAuthISMG(sb, string(want), cr.secret); !bytes.Equal(got, wantResp) {
			c.Failf("response-generator-formula/"+fam, "GenConnectRespAuthISMG = %s, MD5(Status + AuthenticatorSource + secret) = %s\n%s", hx(got), hx(wantResp), ctx)
		}
	}
	var rAuth string
	var rStatus uint32
	pan, val, st = fw.Try(func() {
		switch fam {
		case "cmpp20":
			p := &cmpp20.PduConnectResp{Header: cmpp.NewHeader(0, cmpp.CommandConnectResp, r.U32()), Status: uint8(cr.status), AuthenticatorISMG: string(wantResp), Version: 0x20}
			if img, encErr = p.IEncode(); encErr == nil {
				q := new(cmpp20.PduConnectResp)
				decErr = q.IDecode(img)
				rAuth, rStatus = q.AuthenticatorISMG, uint32(q.Status)
			}
		case "cmpp30":
			p := &cmpp30.ConnectResp{Header: cmpp.NewHeader(0, cmpp.CommandConnectResp, r.U32()), Status: cr.status, AuthenticatorISMG: string(wantResp), Version: 0x30}
			if img, encErr = p.IEncode(); encErr == nil {
				q := new(cmpp30.ConnectResp)
				decErr = q.IDecode(img)
				rAuth, rStatus = q.AuthenticatorISMG, q.Status
			}
		default:
			p := &smgp30.LoginResp{Header: smgp.NewHeader(0, smgp.CommandLoginResp, r.U32()), Status: cr.status, AuthenticatorServer: string(wantResp), ServerVersion: 0x30}
			if img, encErr = p.IEncode(); encErr == nil {
				q := new(smgp30.LoginResp)
				decErr = q.IDecode(img)
				rAuth, rStatus = q.AuthenticatorServer, q.Status
			}
		}
	})
	c.Evals(1)
	if !pan && encErr == nil && fam != "smgp30" && len(img) >= 12+statusLen+16 {
		// a receiver that verifies straight on the received frame: Status taken zero-copy from the image (a slice with
		// the authenticator right behind it), recomputation, and the frame must still be what was received
		frame := append([]byte(nil), img...)
		keep := append([]byte(nil), frame...)
		var onFrame []byte
		if p2, v2, s2 := fw.Try(func() { onFrame = cmpp.GenConnectRespAuthISMG(frame[12:12+statusLen], string(want), cr.secret) }); p2 {
			c.Failf("response-"+fw.PanicSig(v2, s2)+"/"+fam, "%s: %v\n%s", ctx, v2, s2)
		} else {
			if !bytes.Equal(frame, keep) {
				c.Failf("verification-writes-into-received-frame/"+fam, "GenConnectRespAuthISMG(frame[12:%d], …) changed the received frame: %s -> %s\n%s", 12+statusLen, hx(keep), hx(frame), ctx)
			}
			if !bytes.Equal(onFrame, frame[12+statusLen:12+statusLen+16]) && bytes.Equal(frame, keep) {
				c.Failf("response-verification-on-frame-fails/"+fam, "recomputation on the received frame gives %s, the frame carries %s\n%s", hx(onFrame), hx(frame[12+statusLen:12+statusLen+16]), ctx)
			}
		}
	}
	switch {
	case pan:
		c.Failf("response-"+fw.PanicSig(val, st)+"/"+fam, "%s: %v\n%s", ctx, val, st)
	case encErr != nil || decErr != nil:
		c.Failf("response-transport-error/"+fam, "encode err=%v decode err=%v\n%s", encErr, decErr, ctx)
	default:
		recomputed := refServerAuth(rStatus, statusLen, want, cr.secret)
		if rAuth != string(recomputed) {
			kind := nulClass(wantResp)
			if kind == "nul-last" && bytes.Equal(bytes.TrimRight(wantResp, "\x00"), []byte(rAuth)) {
				kind = "trailing-nul-trimmed"
			}
			c.Failf("response-verification-fails/"+fam+"/"+kind, "after encode+decode the client recomputes %s but received authenticator %s (sent %s, status sent %d received %d)\n%s\nimage=%s",
				hx(recomputed), hx([]byte(rAuth)), hx(wantResp), cr.status, rStatus, ctx, hx(img))
		}
	}
	if !pan && encErr == nil && decErr == nil && rAuth == string(refServerAuth(rStatus, statusLen, want, cr.secret)) {
		buf := append([]byte(nil), img...)
		var held string
		var hStatus uint32
		p2, v2, s2 := fw.Try(func() {
			switch fam {
			case "cmpp20":
				q := new(cmpp20.PduConnectResp)
				_ = q.IDecode(buf)
				for i := range buf {
					buf[i] = byte(0xc3 - i)
				}
				held, hStatus = q.AuthenticatorISMG, uint32(q.Status)
			case "cmpp30":
				q := new(cmpp30.ConnectResp)
				_ = q.IDecode(buf)
				for i := range buf {
					buf[i] = byte(0xc3 - i)
				}
				held, hStatus = q.AuthenticatorISMG, q.Status
			default:
				q := new(smgp30.LoginResp)
				_ = q.IDecode(buf)
				for i := range buf {
					buf[i] = byte(0xc3 - i)
				}
				held, hStatus = q.AuthenticatorServer, q.Status
			}
		})
		c.Evals(1)
		if p2 {
			c.Failf("response-"+fw.PanicSig(v2, s2)+"/"+fam, "%s: %v\n%s", ctx, v2, s2)
		} else if held != string(refServerAuth(hStatus, statusLen, want, cr.secret)) {
			c.Failf("response-verification-fails-after-buffer-reuse/"+fam, "the response authenticator decoded from a receive buffer reads %s once the buffer holds the next frame (sent %s)\n%s", hx([]byte(held)), hx(wantResp), ctx)
		}
	}
	c.Echo("authenticator generators/"+fam, func() string {
		a := cmpp.GenConnectAuth(cr.account, cr.secret, cmpp.TimeStamp2Str(cr.ts))
		b, _ := smgp30.VerifGenAuthenticatorClient(cr.account, cr.secret, cr.ts)
		return hx(a) + " " + hx(b) + " " + cmpp.TimeStamp2Str(cr.ts)
	})
	c.Cover(fmt.Sprintf("%s/%s/req-%s/resp-%s/acct%d", c.Stage.Name, fam, nulClass(want), nulClass(wantResp), len(cr.account)))
	c.Sample(2, map[string]any{"family": fam, "account": cr.account, "secret": hx([]byte(cr.secret)), "timestamp": cr.ts, "status": cr.status, "request_digest": hx(want), "response_digest": hx(wantResp)})
}

func init() {
	fw.Register(&fw.Prop{
		ID:        "C15",
		Technique: "runtime monitor: independent MD5 formula (from the CMPP/SMGP documents) vs library generators, and end-to-end verification after encode -> decode; targeted stream of credentials whose digest contains 0x00",
		Rule: "accounts 0..6 (CMPP) / 0..8 (SMGP) octets, secrets 0..32 octets, timestamps {0, 1, 0101000000, 1231235959, random valid}, status codes; a targeted stage keeps only credential sets whose request (and often response) digest has 0x00 at the first / middle / last octet; CMPP 2.0, CMPP 3.0 (4-octet status), SMGP 3.0; constructors NewConnect/NewLogin read back at the clock's timestamp; GenConnectTimestamp under injected clocks that advance 0 ms..60 s between readings, across second and year boundaries; every decoded authenticator re-verified after the receive buffer was overwritten with the next frame; " +
			"distinct_nontrivial = distinct (stage, family, NUL class of request digest, NUL class of response digest, account length) combinations",
		Assumptions: []string{
			"formula sources: CMPP §7.4.1.1/§7.4.1.2, SMGP 3.0.3 §6.2.2/§6.2.7 (spec/extracted/*.txt)",
			"oracles use the timestamp stored in the PDU, never the wall clock",
		},
		Stages: []*fw.Stage{
			{
				// the very first exchange of a process: every worker process starts here, so whatever the library keeps
				// between calls (caches, pools, lazily built tables) is still in its initial state; the timestamps are the
				// ends of the range, 0 first
				Name: "first-use", N: func(fw.Tier) uint64 { return 96 },
				Run: func(c *fw.Case) {
					ts := uint32(0)
					if c.Idx >= 48 {
						ts = []uint32{1231235959, 1, 101000000, 999999999, 1000000000, 4294967295}[c.Idx%6]
					}
					c15ForceTs = &ts
					defer func() { c15ForceTs = nil }()
					c15Case(c, c.Idx%2 == 1)
					c.Cover(fmt.Sprintf("first-use/%d", ts))
				},
			},
			{Name: "random", N: q(150000, 100000000), Run: func(c *fw.Case) { c15Case(c, false) }},
			{Name: "zero-octet-digests", N: q(30000, 10000000), Run: func(c *fw.Case) { c15Case(c, true) }},
			{
				// a login built while the clock runs: GenConnectTimestamp hands out the timestamp twice (string for the
				// digest, number for the PDU); both must denote the same instant whatever the clock does between reads
				Name: "clock", N: q(30000, 20000000),
				Run: func(c *fw.Case) {
					r := c.R
					base := time.Date(2026, time.Month(r.Range(1, 12)), r.Range(1, 28), r.Intn(24), r.Intn(60), r.Intn(60), 0, time.UTC)
					if r.Chance(1, 3) {
						base = time.Date(2026, 12, 31, 23, 59, 59, 0, time.UTC) // rolls over to 0101000000
					}
					base = base.Add(time.Duration(r.Pick(0, 1, 500000000, 999999999, r.Intn(1000000000))))
					step := time.Duration(r.Pick(0, 1, 400, 999, 1000, 1001, 60000, r.Intn(3000))) * time.Millisecond
					reads := 0
					var handed []time.Time
					clock := func() time.Time {
						t := base.Add(time.Duration(reads) * step)
						reads++
						handed = append(handed, t)
						return t
					}
					var str string
					var num uint32
					c.Evals(1)
					if pan, val, st := fw.Try(func() { str, num = cmpp.GenConnectTimestamp(clock) }); pan {
						c.Failf("clock-"+fw.PanicSig(val, st), "GenConnectTimestamp: %v\n%s", val, st)
						return
					}
					ctx := fmt.Sprintf("GenConnectTimestamp with a clock at %s advancing %v per reading (%d readings) = (%q, %d)", base.Format(time.RFC3339Nano), step, reads, str, num)
					if str != string(ts10(num)) {
						c.Failf("timestamp-pair-inconsistent", "%s: the string the digest is computed over and the number sent in the PDU denote different instants", ctx)
						return
					}
					ok := false
					for _, t := range handed {
						if t.Format("0102150405") == str {
							ok = true
						}
					}
					if !ok {
						c.Failf("timestamp-not-from-clock", "%s: no reading of the clock gives this timestamp", ctx)
					}
					// the exchange built from the pair verifies at the peer
					fam := []string{"cmpp20", "cmpp30"}[c.Idx%2]
					acct := string(nonNulASCII(r, r.Range(0, 6)))
					sec := string(nonNulASCII(r, r.Range(0, 20)))
					auth := cmpp.GenConnectAuth(acct, sec, str)
					var gotAuth string
					var gotTs uint32
					var err error
					if fam == "cmpp20" {
						p := &cmpp20.PduConnect{Header: cmpp.NewHeader(0, cmpp.CommandConnect, 1), SourceAddr: acct, AuthenticatorSource: string(auth), Version: 0x20, Timestamp: num}
						img, e := p.IEncode()
						q := new(cmpp20.PduConnect)
						if err = e; e == nil {
							err = q.IDecode(img)
						}
						gotAuth, gotTs = q.AuthenticatorSource, q.Timestamp
					} else {
						p := &cmpp30.Connect{Header: cmpp.NewHeader(0, cmpp.CommandConnect, 1), SourceAddr: acct, AuthenticatorSource: string(auth), Version: 0x30, Timestamp: num}
						img, e := p.IEncode()
						q := new(cmpp30.Connect)
						if err = e; e == nil {
							err = q.IDecode(img)
						}
						gotAuth, gotTs = q.AuthenticatorSource, q.Timestamp
					}
					c.Evals(1)
					if err != nil {
						c.Failf("request-transport-error/"+fam, "%s: %v", ctx, err)
					} else if gotAuth != string(refClientAuth(acct, sec, gotTs, 9)) {
						c.Failf("request-verification-fails/"+fam+"/clock", "%s: the peer recomputes %s from timestamp %010d, received %s", ctx, hx(refClientAuth(acct, sec, gotTs, 9)), gotTs, hx([]byte(gotAuth)))
					}
					c.Cover(fmt.Sprintf("clock/%s/step=%v/reads=%d", fam, step >= time.Second, reads))
				},
			},
			{
				Name: "constructors", N: q(600, 500000),
				Run: func(c *fw.Case) {
					acct := string(nonNulASCII(c.R, c.R.Range(0, 6)))
					sec := string(nonNulASCII(c.R, c.R.Range(0, 20)))
					if c.R.Bool() {
						// secrets are any octets but NUL; in particular they may end in what a file or a form leaves there
						b := nonNul(c.R, c.R.Range(1, 32))
						b[len(b)-1] = byte(c.R.Pick('\n', '\r', ' ', '\t', 0x7f, 0xff, int(b[len(b)-1])))
						if c.R.Chance(1, 4) && len(b) > 1 {
							b[len(b)-2], b[len(b)-1] = '\r', '\n'
						}
						sec = string(b)
					}
					// the constructors read the wall clock in local time (as the documents prescribe) and cannot be given a
					// clock: the calendar they see is moved instead, by a local zone whose offset is a number of days and
					// hours — every month, single- and double-digit days, hours and minutes come up within a run
					saved := time.Local
					off := (int(c.Idx%13)*28*24 + c.R.Intn(24)) * 3600
					off += c.R.Intn(3600)
					time.Local = time.FixedZone("shifted", off)
					defer func() { time.Local = saved }()
					p := cmpp20.NewConnect(acct, sec, c.R.U32())
					if want := refClientAuth(acct, sec, p.Timestamp, 9); p.AuthenticatorSource != string(want) {
						c.Failf("constructor-formula/cmpp20.NewConnect", "NewConnect(%q, %q): authenticator %s, formula with the PDU's own timestamp %010d gives %s", acct, sec, hx([]byte(p.AuthenticatorSource)), p.Timestamp, hx(want))
					}
					l := smgp30.NewLogin(acct, sec, c.R.U32())
					if want := refClientAuth(acct, sec, l.Timestamp, 7); l.AuthenticatorClient != string(want) {
						c.Failf("constructor-formula/smgp30.NewLogin", "NewLogin(%q, %q): authenticator %s, formula with the PDU's own timestamp %010d gives %s", acct, sec, hx([]byte(l.AuthenticatorClient)), l.Timestamp, hx(want))
					}
					c.Evals(2)
					c.Cover(fmt.Sprintf("constructors/acct%d/month%02d", len(acct), p.Timestamp/100000000))
				},
			},
		},
	})
}
