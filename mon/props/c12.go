package props

import (
	"bytes"
	"context"
	"fmt"
	"reflect"
	"sync"
	"unsafe"

	protocol "github.com/hujm2023/go-sms-protocol"
	"github.com/hujm2023/go-sms-protocol/cmpp"
	"github.com/hujm2023/go-sms-protocol/cmpp/cmpp20"
	"github.com/hujm2023/go-sms-protocol/codec"
	"github.com/hujm2023/go-sms-protocol/datacoding"
	"github.com/hujm2023/go-sms-protocol/datacoding/gsm7encoding"
	"github.com/hujm2023/go-sms-protocol/packet"
	"github.com/hujm2023/go-sms-protocol/smgp"
	"github.com/hujm2023/go-sms-protocol/smgp/smgp30"
	"github.com/hujm2023/go-sms-protocol/smpp"
	"github.com/hujm2023/go-sms-protocol/smpp/smpp34"

	sms "github.com/hujm2023/go-sms-protocol"

	"verifmon/fw"
	"verifmon/pdus"
)

// C12 — results own their memory. A history of operations is executed; the harness scribbles over
// every input buffer right after the call that consumed it, and a ledger of earlier results
// (live object + deep snapshot) is re-checked after every operation.

type ledgerEntry struct {
	desc  string
	opIdx int
	check func() string // "" = still equal to its snapshot
	// release: the caller is done with this result and reuses its memory (overwrites every octet it was given)
	release func()
}

type history struct {
	c      *fw.Case
	r      *fw.Rng
	ts     *pdus.Tables
	ledger []ledgerEntry
	ops    int
	prevOp string
	fail   func(sig, format string, args ...any)
	cover  func(key string)
	conn   *feedConn

	builder       *protocol.BatchDataCodingEncoder
	lastBatchText string
}

func scribble(b []byte) {
	for i := range b {
		b[i] = 0xEE
	}
}

func (h *history) keepBytes(desc string, live []byte) {
	snap := append([]byte(nil), live...)
	// the caller owns the whole slice it was given, spare capacity included (append(result, …) is ordinary use):
	// scribble over it; if it is shared with another result or a pooled buffer, a later audit shows it
	if spare := live[len(live):cap(live)]; len(spare) > 0 {
		scribble(spare)
	}
	h.add(desc, func() string {
		if !bytes.Equal(live, snap) {
			return fmt.Sprintf("bytes changed: now %s, were %s", hx(live), hx(snap))
		}
		return ""
	}, func() { scribble(live[:cap(live)]) })
}

func (h *history) keepParts(desc string, live [][]byte) {
	// snapshot every part first, then use the spare capacity of each the way append() would:
	// parts that share one backing array overwrite their neighbours and fail the audit
	for i := range live {
		part, snap := live[i], append([]byte(nil), live[i]...)
		h.add(fmt.Sprintf("%s[part %d]", desc, i), func() string {
			if !bytes.Equal(part, snap) {
				return fmt.Sprintf("bytes changed: now %s, were %s", hx(part), hx(snap))
			}
			return ""
		}, func() { scribble(part[:cap(part)]) })
	}
	for i := range live {
		if spare := live[i][len(live[i]):cap(live[i])]; len(spare) > 0 {
			scribble(spare)
		}
	}
}

func (h *history) keepString(desc string, live string) {
	snap := []byte(live) // a real copy
	h.add(desc, func() string {
		if live != string(snap) {
			return fmt.Sprintf("string changed: now %q, was %q", live, snap)
		}
		return ""
	})
}

func (h *history) keepPDU(desc string, t *pdus.Type, live sms.PDU) {
	lt := t.Lib()
	snap := pdus.Extract(lt, live)
	h.add(desc, func() string {
		if d := pdus.Diff(lt, snap, pdus.Extract(lt, live)); len(d) > 0 {
			return fmt.Sprintf("decoded PDU changed after the fact: %v", d)
		}
		return ""
	}, func() { scribbleDeep(reflect.ValueOf(live)) })
}

// keepFieldValues keeps the slice-typed field VALUES of a decoded PDU (the slice headers as the caller would hold
// them), so that a later decode into the same PDU value can be seen to disturb them.
func (h *history) keepFieldValues(desc string, t *pdus.Type, p sms.PDU) {
	pv := reflect.ValueOf(p).Elem()
	for _, f := range t.Lib().Fields {
		fv := pv.FieldByName(f.Go)
		switch f.Kind {
		case "list":
			live, _ := fv.Interface().([]string)
			snap := append([]string(nil), live...)
			name := f.Go
			h.add(desc+" ."+name, func() string {
				for i := range live {
					if live[i] != snap[i] {
						return fmt.Sprintf("%s[%d] handed out by the first decode now reads %q, was %q", name, i, live[i], snap[i])
					}
				}
				return ""
			})
		case "body":
			if live, ok := fv.Interface().([]byte); ok {
				h.keepBytes(desc+" ."+f.Go, live)
			}
		}
	}
}

func (h *history) keepTLVs(desc string, live any) {
	snap := pdus.CanonTLV(pdus.ExtractTLVs(reflect.ValueOf(live)))
	h.add(desc, func() string {
		if now := pdus.CanonTLV(pdus.ExtractTLVs(reflect.ValueOf(live))); now != snap {
			return fmt.Sprintf("optional parameters changed after the fact: now %s, were %s", trunc200(now), trunc200(snap))
		}
		return ""
	}, func() { scribbleDeep(reflect.ValueOf(live)) })
}

// pointsInto reports the first byte slice or string reachable from v whose memory — spare capacity included, that
// is the caller's too once it appends — overlaps the array behind buf. A decoded value may be empty and still hold
// such a view (a zero-length option value cut out of the input): nothing within its length ever changes, an append does.
func pointsInto(v reflect.Value, buf []byte, path string) string {
	if cap(buf) == 0 {
		return ""
	}
	full := buf[:cap(buf)]
	lo := uintptr(unsafe.Pointer(&full[0]))
	hi := lo + uintptr(len(full))
	var walk func(v reflect.Value, path string) string
	walk = func(v reflect.Value, path string) string {
		switch v.Kind() {
		case reflect.Ptr, reflect.Interface:
			if !v.IsNil() {
				return walk(v.Elem(), path)
			}
		case reflect.Struct:
			for i := 0; i < v.NumField(); i++ {
				if w := walk(v.Field(i), path+"."+v.Type().Field(i).Name); w != "" {
					return w
				}
			}
		case reflect.Map:
			for it := v.MapRange(); it.Next(); {
				if w := walk(it.Value(), fmt.Sprintf("%s[%v]", path, it.Key())); w != "" {
					return w
				}
			}
		case reflect.String:
			if n := v.Len(); n > 0 {
				str := v.String()
				p := (*reflect.StringHeader)(unsafe.Pointer(&str)).Data
				if p < hi && p+uintptr(n) > lo {
					return fmt.Sprintf("%s (string of %d octets)", path, n)
				}
			}
		case reflect.Slice:
			if v.Type().Elem().Kind() == reflect.Uint8 {
				if c := v.Cap(); c > 0 {
					p := v.Pointer()
					if p < hi && p+uintptr(c) > lo {
						return fmt.Sprintf("%s (len %d, cap %d)", path, v.Len(), c)
					}
				}
				return ""
			}
			for i := 0; i < v.Len(); i++ {
				if w := walk(v.Index(i), fmt.Sprintf("%s[%d]", path, i)); w != "" {
					return w
				}
			}
		}
		return ""
	}
	return walk(v, path)
}

// decodedOwnsMemory: the decoded value must not point into the input buffer (checked before the buffer is reused).
func (h *history) decodedOwnsMemory(op string, result any, buf []byte) {
	if w := pointsInto(reflect.ValueOf(result), buf, ""); w != "" {
		h.fail("decoded-value-points-into-input/"+sigOf(op), "op #%d (%s): the decoded value's %s lies inside the %d-octet input buffer", h.ops, op, w, len(buf))
	}
}

func trunc200(s string) string {
	if len(s) > 200 {
		return s[:200] + "…"
	}
	return s
}

func (h *history) add(desc string, check func() string, release ...func()) {
	e := ledgerEntry{desc: desc, opIdx: h.ops, check: check}
	if len(release) > 0 {
		e.release = release[0]
	}
	h.ledger = append(h.ledger, e)
	if len(h.ledger) > 64 {
		for _, old := range h.ledger[:len(h.ledger)-64] {
			if old.release != nil {
				old.release()
			}
		}
		h.ledger = h.ledger[len(h.ledger)-64:]
	}
}

// releaseSome: the caller finishes with some earlier results before the next call and overwrites them
// (they are its own memory); results it still holds must not notice.
func (h *history) releaseSome() {
	for n := h.r.Intn(3); n > 0 && len(h.ledger) > 0; n-- {
		i := h.r.Intn(len(h.ledger))
		if e := h.ledger[i]; e.release != nil {
			e.release()
			h.cover("caller-overwrote/" + sigOf(e.desc))
		}
		h.ledger = append(h.ledger[:i:i], h.ledger[i+1:]...)
	}
}

// scribbleDeep overwrites every octet reachable through byte slices of v (struct fields, map values, slices).
func scribbleDeep(v reflect.Value) {
	switch v.Kind() {
	case reflect.Ptr, reflect.Interface:
		if !v.IsNil() {
			scribbleDeep(v.Elem())
		}
	case reflect.Struct:
		for i := 0; i < v.NumField(); i++ {
			scribbleDeep(v.Field(i))
		}
	case reflect.Map:
		for it := v.MapRange(); it.Next(); {
			scribbleDeep(it.Value())
		}
	case reflect.Slice:
		if v.Type().Elem().Kind() == reflect.Uint8 {
			scribble(v.Bytes())
			return
		}
		for i := 0; i < v.Len(); i++ {
			scribbleDeep(v.Index(i))
		}
	case reflect.Array:
		if v.Type().Elem().Kind() != reflect.Uint8 {
			for i := 0; i < v.Len(); i++ {
				scribbleDeep(v.Index(i))
			}
		}
	}
}

// audit re-checks every ledger entry (after an operation named op).
func (h *history) audit(op string) bool {
	ok := true
	for _, e := range h.ledger {
		if msg := e.check(); msg != "" {
			kind := "result-changed-by-later-call"
			if e.opIdx == h.ops {
				kind = "result-aliases-input-or-pool"
			}
			h.fail(kind+"/"+sigOf(e.desc)+"<-"+sigOf(op), "result of op #%d (%s) no longer equals its snapshot after op #%d (%s): %s", e.opIdx, e.desc, h.ops, op, msg)
			ok = false
		}
	}
	if !ok {
		h.ledger = nil // report once
	}
	return ok
}

// sigOf strips the variable parts of an op description ("encode cmpp20.PduSubmit/… #12" -> "encode cmpp20.PduSubmit").
func sigOf(desc string) string {
	for i := 0; i < len(desc); i++ {
		if desc[i] == '/' || desc[i] == '[' || desc[i] == '#' {
			return desc[:i]
		}
	}
	return desc
}

func (h *history) step() bool {
	r := h.r
	h.ops++
	t := h.ts.Types[r.Intn(len(h.ts.Types))]
	lt := t.Lib()
	var op string
	ctx := context.Background()
	pan, val, st := fw.Try(func() {
		switch k := r.Intn(19); k {
		case 18: // octet-level helpers called on a WINDOW of a larger caller buffer (a segment of a septet run, a frame
			// inside a receive buffer): what lies behind the window is the caller's and must stay as it is
			op = "helpers-on-a-window"
			n := r.Pick(7, 15, 23, 6, 8, 1, 31, 39, 152, 153, 47, r.Range(0, 64))
			septets := make([]byte, n)
			for i := range septets {
				septets[i] = byte(r.Intn(128))
				if septets[i] == 0x1B {
					septets[i] = 0x41
				}
			}
			for _, x := range []struct {
				name string
				f    func(in []byte) []byte
			}{
				{"gsm7encoding.Pack", func(in []byte) []byte { return gsm7encoding.Pack(in) }},
				{"gsm7encoding.Unpack", func(in []byte) []byte { return gsm7encoding.Unpack(in) }},
				{"gsm7encoding.Decode", func(in []byte) []byte {
					b, err := gsm7encoding.Decode(in)
					if err != nil {
						return nil
					}
					return b
				}},
				{"gsm7encoding.ValidateGSM7Buffer", func(in []byte) []byte { return gsm7encoding.ValidateGSM7Buffer(in) }},
				{"GSM7Packed.Decode", func(in []byte) []byte {
					b, err := datacoding.GSM7Packed(in).Decode()
					if err != nil {
						return nil
					}
					return b
				}},
				{"GSM7Unpacked.Decode", func(in []byte) []byte {
					b, err := datacoding.GSM7Unpacked(in).Decode()
					if err != nil {
						return nil
					}
					return b
				}},
				{"GSM7Unpacked.Encode", func(in []byte) []byte {
					b, err := datacoding.GSM7Unpacked(in).Encode()
					if err != nil {
						return nil
					}
					return b
				}},
				{"GSM7Packed.Encode", func(in []byte) []byte {
					b, err := datacoding.GSM7Packed(in).Encode()
					if err != nil {
						return nil
					}
					return b
				}},
				{"UCS2.Decode", func(in []byte) []byte {
					b, err := datacoding.UCS2(in).Decode()
					if err != nil {
						return nil
					}
					return b
				}},
				{"Latin1.Decode", func(in []byte) []byte {
					b, err := datacoding.Latin1(in).Decode()
					if err != nil {
						return nil
					}
					return b
				}},
			} {
				view := spareView(septets)
				tail := append([]byte(nil), view[len(view):cap(view)]...)
				out := x.f(view)
				if !bytes.Equal(view[len(view):cap(view)], tail) || !bytes.Equal(view, septets) {
					h.fail("library-wrote-into-callers-buffer/"+x.name, "%s on a %d-octet window of a larger buffer: the caller's octets are now %s | %s, were %s | %s",
						x.name, n, hx(view), hx(view[len(view):cap(view)]), hx(septets), hx(tail))
					continue
				}
				if len(out) > 0 {
					h.keepBytes(x.name+" (window)", out)
				}
				scribble(view[:cap(view)])
			}
		case 16: // the packet helpers (heartbeats, terminate): every call hands out bytes of its own
			op = "helper-packets"
			seq := r.U32()
			for _, x := range []struct {
				name string
				b    []byte
			}{
				{"smpp34.NewEnquireLinkReqBytes", smpp34.NewEnquireLinkReqBytes(seq)},
				{"smpp34.NewEnquireLinkRespBytes", smpp34.NewEnquireLinkRespBytes(seq + 1)},
				{"smpp34.NewUnBindBytes", smpp34.NewUnBindBytes(seq + 2)},
				{"smpp34.NewUnBindRespBytes", smpp34.NewUnBindRespBytes(seq + 3)},
				{"cmpp20.NewActiveTestPacket", cmpp20.NewActiveTestPacket(seq + 4)},
				{"cmpp20.NewTerminatePacket", cmpp20.NewTerminatePacket(seq + 5)},
				{"smgp30.NewActiveTestPacket", smgp30.NewActiveTestPacket(seq + 6)},
			} {
				h.keepBytes(x.name, x.b)
			}
		case 17: // an SMPP PDU with a large optional parameter (message_payload carries up to 64 KiB), decoded from a
			// caller buffer that is reused afterwards
			keys := []string{"smpp34.SubmitSm/submit_sm", "smpp34.DeliverSm/deliver_sm"}
			st := h.ts.ByKey[keys[r.Intn(2)]]
			op = "decode " + st.Key() + " (large optional parameter)"
			v, _ := pdus.Gen(st, r, -1, 0)
			n := r.Pick(1023, 1024, 1025, 1500, 4096, 40000, 65531)
			v.F["TLV"] = []pdus.TLV{{Tag: uint16(r.Pick(0x0424, 0x1403, 0x0005)), Len: uint16(n), Val: r.Bytes(n)}, {Tag: 0x0204, Len: 2, Val: []byte{0, 1}}}
			buf := pdus.RefEncode(st, v)
			p := st.New()
			if err := p.IDecode(buf); err == nil {
				h.decodedOwnsMemory(op, p, buf)
				h.keepPDU(op, st, p)
			}
			scribble(buf)
		case 15: // text codecs over a buffer the caller keeps using: the codec types are []byte, a conversion does not copy
			text, _ := randomText(r, 120)
			if r.Chance(1, 3) { // the plain 7-bit case real traffic mostly is
				text = string(nonNulASCII(r, r.Range(1, 80)))
			}
			which := r.Intn(5)
			name := []string{"Latin1", "UCS2", "GB18030", "GSM7Unpacked", "GSM7Packed"}[which]
			op = "text-codec-on-caller-buffer " + name
			mk := func(b []byte) datacoding.Codec {
				switch which {
				case 0:
					return datacoding.Latin1(b)
				case 1:
					return datacoding.UCS2(b)
				case 2:
					return datacoding.GB18030(b)
				case 3:
					return datacoding.GSM7Unpacked(b)
				}
				return datacoding.GSM7Packed(b)
			}
			in := []byte(text)
			enc, err := mk(in).Encode()
			if err == nil {
				h.keepBytes("codec.Encode(caller buffer) "+name, enc)
				wire := append([]byte(nil), enc...)
				dec, derr := mk(wire).Decode()
				if derr == nil {
					h.keepBytes("codec.Decode(caller buffer) "+name, dec)
				}
				scribble(wire)
			}
			scribble(in)
		case 12: // an encode that must fail: the error path gives pooled buffers back too
			cands := oversizeCandidates(h.ts)
			oc := cands[r.Intn(len(cands))]
			op = "encode-refused " + oc.t.Key()
			v, _ := pdus.Gen(oc.t, r, -1, 0)
			f := oc.t.Fields[oc.field]
			big := nonNul(r, f.W+1+r.Intn(8))
			if oc.elem {
				v.F[f.Spec] = [][]byte{big}
				v.F[f.Count] = uint64(1)
			} else {
				v.F[f.Spec] = big
			}
			if b, err := pdus.Build(oc.t, v).IEncode(); err == nil {
				h.keepBytes(op, b)
			}
		case 0, 1: // encode
			op = "encode " + t.Key()
			v, _ := pdus.Gen(lt, r, -1, 0)
			b, err := pdus.Build(lt, v).IEncode()
			if err == nil {
				want := append([]byte(nil), b...)
				_ = want
				h.keepBytes(op, b)
			}
		case 2, 3: // decode from a caller buffer that is scribbled immediately afterwards
			op = "decode " + t.Key()
			v, _ := pdus.Gen(t, r, -1, 0)
			buf := pdus.RefEncode(t, v)
			p := t.New()
			if err := p.IDecode(buf); err == nil {
				h.decodedOwnsMemory(op, p, buf)
				h.keepPDU(op, t, p)
			}
			scribble(buf)
		case 4: // decode through the dispatcher, then String()
			op = "dispatch+String " + t.Key()
			v, _ := pdus.Gen(t, r, -1, 0)
			buf := pdus.RefEncode(t, v)
			p, err := pdus.Dispatchers[t.Family](buf)
			if err == nil && p != nil {
				h.decodedOwnsMemory(op, p, buf)
				h.keepPDU(op, t, p)
				s := p.String()
				scribble(buf)
				h.keepString("String "+t.Key(), s)
			} else {
				scribble(buf)
			}
		case 5: // zero-copy frame extraction: decode from the Peek view, then refill the connection buffer
			op = "frame-extract+decode " + t.Key()
			if t.HKind == "sgip" {
				op = "frame-extract+decode(skip sgip: no codec)"
				return
			}
			v, _ := pdus.Gen(t, r, -1, 0)
			img := pdus.RefEncode(t, v)
			var cd codec.Codec = codec.NewCMPPCodec()
			if t.HKind == "smpp" {
				cd = codec.NewSMPPCodec()
			}
			h.conn.feed(img)
			frame, err := cd.Decode(h.conn)
			if err == nil {
				p := t.New()
				if derr := p.IDecode(frame); derr == nil {
					h.decodedOwnsMemory(op, p, frame)
					h.keepPDU(op, t, p)
				}
				// the view dies here: the next arrival overwrites the connection buffer
				h.conn.feed(r.Bytes(r.Range(1, 8)))
				h.conn.buf = nil
			}
		case 6: // split
			op = "split"
			text, _ := randomText(r, 500)
			if r.Bool() {
				parts, _, err := protocol.EncodeCMPPContentAndSplit(ctx, text, datacoding.CMPPDataCoding(r.Pick(0, 8, 15)), byte(r.U32()))
				if err == nil {
					h.keepParts("split CMPP", parts)
				}
			} else {
				parts, _, err := protocol.EncodeSMPPContentAndSplit(ctx, text, datacoding.SMPPDataCoding(r.Pick(0, 1, 3, 8, 99)), byte(r.U32()))
				if err == nil {
					h.keepParts("split SMPP", parts)
				}
			}
		case 7: // batch
			op = "batch"
			text, _ := randomText(r, 300)
			if text == "" {
				text = "x"
			}
			if h.builder == nil || r.Chance(1, 4) {
				h.builder = protocol.NewBatchDataCodingEncoder().Protocol(protocol.SMPP).
					DataCodings([]datacoding.ProtocolDataCoding{datacoding.SMPP_CODING_GSM7_PACKED, datacoding.SMPP_CODING_UCS2, datacoding.SMPP_CODING_Latin1})
			}
			if h.lastBatchText != "" && r.Chance(1, 3) {
				text = h.lastBatchText // same text, new reference byte: bulk sending with a reused builder
			}
			h.lastBatchText = text
			parts, _, err := h.builder.Content(text, byte(r.U32())).Build(ctx)
			if err == nil {
				h.keepParts("batch", parts)
			}
		case 8: // optional-parameter containers parsed from a caller buffer
			op = "parse-options"
			l := pdus.GenTLVs(r, r.Pick(2, 3, 3, 4, 6))
			raw := pdus.RefBody([]pdus.Field{{Spec: "t", Kind: "tlv"}}, &pdus.Values{F: map[string]any{"t": l}})
			switch r.Intn(4) {
			case 0:
				buf := append([]byte(nil), raw...)
				o, err := smgp.ParseOptions(buf)
				if err == nil {
					h.decodedOwnsMemory("smgp.ParseOptions", o, buf)
					h.keepTLVs("smgp.ParseOptions", o)
				}
				scribble(buf)
			case 1:
				buf := append([]byte(nil), raw...)
				o := smgp.ReadOptions(packet.NewPacketReader(buf))
				h.decodedOwnsMemory("smgp.ReadOptions", o, buf)
				h.keepTLVs("smgp.ReadOptions", o)
				scribble(buf)
			case 2:
				buf := append([]byte(nil), raw...)
				o, err := smpp.ReadTLVs(packet.NewPacketReader(buf))
				if err == nil {
					h.decodedOwnsMemory("smpp.ReadTLVs", o, buf)
					h.keepTLVs("smpp.ReadTLVs", o)
				}
				scribble(buf)
			default:
				m := smpp.TLVs{}
				for _, tl := range l {
					m.SetTLV(smpp.NewTLV(tl.Tag, append([]byte(nil), tl.Val...)))
				}
				h.keepBytes("smpp.TLVs.Bytes", m.Bytes())
			}
		case 9: // text codecs
			op = "text-codec"
			text, _ := randomText(r, 200)
			cd := codecDefs[r.Intn(len(codecDefs))]
			in := []byte(text)
			enc, err := cd.mk(string(in)).Encode()
			if err == nil {
				h.keepBytes("codec.Encode "+cd.name, enc)
				dec, derr := cd.mk(string(enc)).Decode()
				if derr == nil {
					h.keepBytes("codec.Decode "+cd.name, dec)
				}
			}
			h.keepString("cmpp.Utf8ToUcs2Pooled", cmpp.Utf8ToUcs2Pooled(text))
		case 10: // String() of a hand-made PDU
			op = "String " + t.Key()
			v, _ := pdus.Gen(lt, r, -1, 0)
			h.keepString(op, pdus.Build(lt, v).String())
		case 13: // decode twice into the SAME PDU value: what the first decode handed out must not change
			op = "redecode " + t.Key()
			v1, _ := pdus.Gen(t, r, -1, 0)
			b1 := pdus.RefEncode(t, v1)
			p := t.New()
			if err := p.IDecode(b1); err == nil {
				h.keepFieldValues(op, t, p)
				v2, _ := pdus.Gen(t, r, -1, 0)
				b2 := pdus.RefEncode(t, v2)
				_ = p.IDecode(b2)
				scribble(b2)
			}
			scribble(b1)
		default: // SMGP submit with options: decoded from a caller buffer
			st := h.ts.ByKey["smgp30.Submit/Submit"]
			op = "decode " + st.Key() + " (with options)"
			v, _ := pdus.Gen(st, r, len(st.Fields)-1, r.Pick(2, 3, 6))
			buf := pdus.RefEncode(st, v)
			p := st.New()
			if err := p.IDecode(buf); err == nil {
				h.decodedOwnsMemory(op, p, buf)
				h.keepPDU(op, st, p)
			}
			scribble(buf)
		}
	})
	if pan {
		h.fail("history-"+fw.PanicSig(val, st)+"/"+sigOf(op), "op #%d (%s) panicked: %v\n%s", h.ops, op, val, st)
		return false
	}
	h.cover("bigram/" + sigOf(h.prevOp) + ">" + sigOf(op))
	h.prevOp = op
	ok := h.audit(op)
	if ok && r.Chance(1, 3) {
		h.releaseSome()
		ok = h.audit(op + " + the caller overwriting results it is done with")
	}
	return ok
}

func runHistory(c *fw.Case, r *fw.Rng, n int, fail func(sig, format string, args ...any), cover func(string)) int {
	h := &history{c: c, r: r, ts: pdus.Load(), fail: fail, cover: cover, conn: &feedConn{}}
	for i := 0; i < n; i++ {
		if !h.step() {
			break
		}
	}
	return h.ops
}

func init() {
	fw.Register(&fw.Prop{
		ID:        "C12",
		Technique: "runtime monitor: result ledger (live object + deep snapshot re-checked after every later operation) with input scribbling, Poison hook on pooled buffers, pool-ownership monitor; multi-goroutine variant under the Go race detector",
		Rule: "histories of 1..1000 operations (encode / decode from a scribbled caller buffer / dispatcher + String / zero-copy frame extraction then refill / split / batch / option containers / text codecs) over random PDU types; after each operation every one of the last 64 results must still equal its snapshot; " +
			"distinct_nontrivial = distinct operation bigrams (previous op kind > op kind, by PDU type) observed + pooled-object reuse observed by the ownership monitor",
		Assumptions: []string{
			"Reader.Bytes() and Codec.Decode frames are documented views, not results; what is checked is that decoders fed from them return independent values",
			"with the verif build, Writer.Release and Utf8ToUcs2Pooled poison (0xA5) the buffer they give back, so a result backed by pooled memory differs from its snapshot at once",
		},
		Conclude: func(total *fw.Result) []string {
			if total.Counters["hook_events/acquire"] == 0 || total.Counters["hook_events/poison"] == 0 {
				return []string{"the Acquire/Poison hooks produced no event: the pooled-memory monitors observed nothing"}
			}
			return nil
		},
		Stages: []*fw.Stage{
			{
				Name: "histories", N: q(1500, 24000),
				Run: func(c *fw.Case) {
					n := c.R.Range(1, 200)
					if c.R.Chance(1, 8) {
						n = c.R.Range(200, 1000)
					}
					ops := runHistory(c, c.R, n, c.Failf, func(k string) { c.Cover("histories/" + k) })
					c.Evals(uint64(ops))
					if c.W.Hooks != nil {
						if errs := c.W.Hooks.TakeOwnErrs(); len(errs) > 0 {
							c.Failf("pool-ownership", "%v", errs)
						}
						_, _, acq, rel, poi := c.W.Hooks.Totals()
						c.W.Res.Counters["hook_acquires"], c.W.Res.Counters["hook_releases"], c.W.Res.Counters["hook_poisons"] = acq, rel, poi
					}
					c.Sample(2, map[string]any{"history_length": ops, "last_op_kinds": "encode/decode/dispatch+String/frame-extract/split/batch/options/text-codec (PRNG-chosen per step)"})
				},
			},
			{
				Name: "concurrent", Race: true, N: q(300, 2400),
				GoMaxProcs: func(shard int) int { return []int{2, 4, 8, 16}[shard%4] },
				Run: func(c *fw.Case) {
					if c.W.Hooks != nil {
						c.W.Hooks.YieldMode = 1
						defer func() { c.W.Hooks.YieldMode = 0 }()
					}
					var mu sync.Mutex
					var wg sync.WaitGroup
					total := 0
					type failure struct{ sig, msg string }
					var fails []failure
					covers := map[string]bool{}
					for g := 0; g < 4; g++ {
						wg.Add(1)
						rg := fw.NewRng(c.R.U64(), uint64(g))
						go func() {
							defer wg.Done()
							ops := runHistory(c, rg, rg.Range(20, 200),
								func(sig, f string, a ...any) {
									mu.Lock()
									fails = append(fails, failure{sig, fmt.Sprintf(f, a...)})
									mu.Unlock()
								},
								func(k string) { mu.Lock(); covers[k] = true; mu.Unlock() })
							mu.Lock()
							total += ops
							mu.Unlock()
						}()
					}
					wg.Wait()
					for _, f := range fails {
						c.Failf(f.sig, "%s", f.msg)
					}
					for k := range covers {
						c.Cover("concurrent/" + k)
					}
					c.Evals(uint64(total))
					if c.W.Hooks != nil {
						if errs := c.W.Hooks.TakeOwnErrs(); len(errs) > 0 {
							c.Failf("pool-ownership", "%v", errs)
						}
					}
				},
			},
		},
	})
}
