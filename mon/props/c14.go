package props

import "verifmon/fw"

// C14 — no character is cut in two by a part boundary: every part decodes on its own.
func init() {
	fw.Register(&fw.Prop{
		ID:        "C14",
		Technique: "runtime monitor: per-part reference decoding of split results (each part decoded on its own; packed GSM-7 with per-part septet counts), concatenation compared with the original",
		Rule: "multi-part texts with a multi-unit character (GSM-7 escape pair, UTF-16 surrogate pair, 2- and 4-octet GB18030 character) started at every offset -3..+3 relative to every part boundary x GSM-7 packed/unpacked, UCS-2, GB18030 (also reached as CMPP coding 15); " +
			"distinct_nontrivial = distinct (entry, coding, verdict) outcomes over multi-part results",
		Assumptions: []string{
			"GB18030 per-part decoding uses the library's decoder plus a re-encode check (a cut character decodes to U+FFFD and does not re-encode to the payload)",
		},
		Stages: []*fw.Stage{
			{Name: "boundaries", N: q(400000, 10000000), Run: func(c *fw.Case) { splitCase(c, judgeC14) }},
		},
	})
}
