package props

import (
	"bytes"
	"context"
	"errors"
	"fmt"
	"strings"
	"unicode/utf8"

	protocol "github.com/hujm2023/go-sms-protocol"
	"github.com/hujm2023/go-sms-protocol/cmpp"
	"github.com/hujm2023/go-sms-protocol/datacoding"

	"verifmon/fw"
	"verifmon/ref"
)

// C05 — text codings invert on their repertoire and refuse what they cannot represent.

type codecDef struct {
	name string
	mk   func(s string) datacoding.Codec
}

var codecDefs = []codecDef{
	{"ASCII", func(s string) datacoding.Codec { return datacoding.Ascii(s) }},
	{"Latin1", func(s string) datacoding.Codec { return datacoding.Latin1(s) }},
	{"UCS2", func(s string) datacoding.Codec { return datacoding.UCS2(s) }},
	{"GB18030", func(s string) datacoding.Codec { return datacoding.GB18030(s) }},
	{"GSM7Unpacked", func(s string) datacoding.Codec { return datacoding.GSM7Unpacked(s) }},
	{"GSM7Packed", func(s string) datacoding.Codec { return datacoding.GSM7Packed(s) }},
}

// c05Text runs one valid UTF-8 text through all six codecs and the protocol-level decoders.
// refusedFirst makes every codec refuse something (decode of bytes that are invalid for it after a valid
// prefix; encode of a text outside its repertoire): state left behind by an error path must not leak into the next call.
func refusedFirst(c *fw.Case) {
	bad := map[string][]byte{
		"ASCII":        []byte("JUNK\xff"),
		"Latin1":       []byte("JUNK"),
		"UCS2":         {0x00, 0x4a, 0xd8, 0x00},
		"GB18030":      {0x4a, 0x55, 0x81},
		"GSM7Unpacked": {0x4a, 0x55, 0x4e, 0x4b, 0x1b, 0x01},
		"GSM7Packed":   ref.Pack([]byte{0x4a, 0x55, 0x4e, 0x4b, 0x1b, 0x01}),
	}
	for _, cd := range codecDefs {
		fw.Try(func() { _, _ = cd.mk(string(bad[cd.name])).Decode() })
		fw.Try(func() { _, _ = cd.mk("JUNK\u4e2d\U0001f600\x01").Encode() })
	}
	fw.Try(func() { _, _ = protocol.DecodeSMPPCContent(context.Background(), string(bad["GSM7Packed"]), 0) })
}

func c05Text(c *fw.Case, t string, proto bool) {
	if c.R.Chance(1, 6) {
		refusedFirst(c)
	}
	tab := ref.GSM7()
	septets, inGSM := tab.Encode(t)
	if len(t) <= 2000 {
		c.Echo("codecs.Encode+Decode", func() string {
			var sb strings.Builder
			for _, cd := range codecDefs {
				enc, err := cd.mk(t).Encode()
				fmt.Fprintf(&sb, "%s:%v:%s;", cd.name, err != nil, digestBytes(enc))
				if err == nil {
					dec, derr := cd.mk(string(enc)).Decode()
					fmt.Fprintf(&sb, "%v:%s;", derr != nil, digestBytes(dec))
				}
			}
			return sb.String()
		})
	}
	for _, cd := range codecDefs {
		c.Evals(1)
		var enc []byte
		var err error
		if !try1(c, cd.name+".Encode", []byte(t), func() { enc, err = cd.mk(t).Encode() }) {
			continue
		}
		// codec-specific exact oracles
		switch cd.name {
		case "ASCII":
			if ref.IsASCII(t) != (err == nil) || (err == nil && string(enc) != t) {
				c.Failf("ascii-encode", "Ascii(%q).Encode = (%s, %v); ASCII text=%v", t, hx(enc), err, ref.IsASCII(t))
			}
		case "UCS2":
			if err != nil || !bytes.Equal(enc, ref.UTF16BE(t)) {
				c.Failf("ucs2-encode", "UCS2(%q).Encode = (%s, %v), UTF-16BE reference %s", t, hx(enc), err, hx(ref.UTF16BE(t)))
			}
		case "GSM7Unpacked":
			if inGSM != (err == nil) || (err == nil && !bytes.Equal(enc, septets)) {
				c.Failf("gsm7-unpacked-encode", "GSM7Unpacked(%q).Encode = (%s, %v), reference (%s, in alphabet=%v)", t, hx(enc), err, hx(septets), inGSM)
			}
		case "GSM7Packed":
			if inGSM != (err == nil) || (err == nil && !bytes.Equal(enc, ref.Pack(septets))) {
				c.Failf("gsm7-packed-encode", "GSM7Packed(%q).Encode = (%s, %v), reference (%s, in alphabet=%v)", t, hx(enc), err, hx(ref.Pack(septets)), inGSM)
			}
		}
		if err != nil {
			c.Cover("codec/" + cd.name + "/refused")
			continue
		}
		var dec []byte
		var derr error
		keep := append([]byte(nil), enc...)
		if !try1(c, cd.name+".Decode", keep, func() { dec, derr = cd.mk(string(enc)).Decode() }) {
			continue
		}
		if derr == nil && string(dec) == t {
			if len(t) > 1 {
				c.Sample(3, map[string]any{"codec": cd.name, "text": t, "encoded": hx(keep), "decoded_equal": true})
			}
			c.Cover("codec/" + cd.name + "/roundtrip")
			continue
		}
		// carve-outs
		if cd.name == "GB18030" && ref.GBCarveOut(t) {
			c.Cover("codec/GB18030/carve-out-private-use")
			continue
		}
		if cd.name == "GSM7Packed" && ref.EndAmbiguous(septets) {
			if want, _ := tab.Decode(septets[:len(septets)-1]); derr == nil && string(dec) == want {
				c.Cover("codec/GSM7Packed/carve-out-end-of-message")
				continue
			}
		}
		c.Failf("codec-roundtrip/"+cd.name, "%s: %q -> %s -> (%q, %v): accepted text does not decode back to itself", cd.name, t, hx(keep), dec, derr)
	}
	// UCS-2 helpers agree
	want := string(ref.UTF16BE(t))
	var a, b2, p string
	var aerr error
	try1(c, "cmpp.Utf8ToUcs2", []byte(t), func() { a, aerr = cmpp.Utf8ToUcs2(t) })
	try1(c, "cmpp.Utf8ToUcs2Back", []byte(t), func() { b2 = cmpp.Utf8ToUcs2Back(t) })
	try1(c, "cmpp.Utf8ToUcs2Pooled", []byte(t), func() { p = cmpp.Utf8ToUcs2Pooled(t) })
	if aerr != nil || a != want || b2 != want || p != want {
		c.Failf("ucs2-helpers-disagree", "text %q: Utf8ToUcs2=(%s,%v) Utf8ToUcs2Back=%s Utf8ToUcs2Pooled=%s reference=%s", t, hx([]byte(a)), aerr, hx([]byte(b2)), hx([]byte(p)), hx([]byte(want)))
	}
	if !proto {
		return
	}
	ctx := context.Background()
	type pc struct {
		name string
		enc  func() ([]byte, error)
		dec  func(string) (string, error)
	}
	pcs := []pc{
		{"cmpp/0", datacoding.Ascii(t).Encode, func(s string) (string, error) { return protocol.DecodeCMPPCContent(ctx, s, 0) }},
		{"cmpp/8", datacoding.UCS2(t).Encode, func(s string) (string, error) { return protocol.DecodeCMPPCContent(ctx, s, 8) }},
		{"cmpp/9", datacoding.UCS2(t).Encode, func(s string) (string, error) { return protocol.DecodeCMPPCContent(ctx, s, 9) }},
		{"cmpp/15", datacoding.GB18030(t).Encode, func(s string) (string, error) { return protocol.DecodeCMPPCContent(ctx, s, 15) }},
		{"smpp/0", datacoding.GSM7Unpacked(t).Encode, func(s string) (string, error) { return protocol.DecodeSMPPCContent(ctx, s, 0) }},
		{"smpp/1", datacoding.Ascii(t).Encode, func(s string) (string, error) { return protocol.DecodeSMPPCContent(ctx, s, 1) }},
		{"smpp/3", datacoding.Latin1(t).Encode, func(s string) (string, error) { return protocol.DecodeSMPPCContent(ctx, s, 3) }},
		{"smpp/8", datacoding.UCS2(t).Encode, func(s string) (string, error) { return protocol.DecodeSMPPCContent(ctx, s, 8) }},
	}
	for _, x := range pcs {
		enc, err := x.enc()
		if err != nil {
			continue
		}
		c.Evals(1)
		var got string
		var derr error
		if !try1(c, "DecodeContent/"+x.name, enc, func() { got, derr = x.dec(string(enc)) }) {
			continue
		}
		if derr != nil || got != t {
			if x.name == "cmpp/15" && ref.GBCarveOut(t) {
				continue
			}
			c.Failf("protocol-decode/"+x.name, "content decoder %s does not invert its encoder: %q -> %s -> (%q, %v)", x.name, t, hx(enc), got, derr)
		} else {
			c.Cover("protocol/" + x.name + "/inverts")
		}
	}
}

func isUnsupportedErr(err error) bool {
	return err != nil && (errors.Is(err, datacoding.ErrUnsupportedDataCoding) || err.Error() == datacoding.ErrUnsupportedDataCoding.Error())
}

// sampleRunes per repertoire for random strings.
var repertoires = map[string][]rune{
	"ascii":    []rune("abcXYZ019 .,!?@$_\n\r~^{}[]|\\\x7f\x01\x1b"),
	"latin":    []rune("éèàùñÑüÜßÆæØøÅå¡¿£¥§¤çÇ ­ÿ\u0080\u0081\u008d\u009f€ŒŸ"),
	"gsmext":   []rune("^{}\\[~]|€\f"),
	"greek":    []rune("ΔΦΓΛΩΠΨΣΘΞαβγ"),
	"cjk":      []rune("中文短信测试汉字繁體字〇〡あア한　！一龥龦㐀䶿"),
	"suppl":    []rune{0x1f600, 0x1f4a9, 0x20000, 0x2a6d6, 0x10000, 0x10ffff, 0x1d11e},
	"gbedge":   []rune{0x80, 0xa4, 0xe000, 0xe864, 0xe865, 0xe5e5, 0xf8ff, 0xfffd, 0xffff, 0x2e81, 0x9fb4, 0x9fbb, 0xfe10, 0xfe19, 0x1e3f, 0x20ac, 0xd7ff},
	"controls": []rune{0, 1, 7, 8, 9, 10, 11, 12, 13, 0x1a, 0x1b, 0x7f, 0x85, 0xa0, 0x2028, 0xfeff, 0xfffe},
}
var repNames = []string{"ascii", "latin", "gsmext", "greek", "cjk", "suppl", "gbedge", "controls"}

func randomText(r *fw.Rng, maxUnits int) (string, string) {
	mode := r.Intn(6)
	n := r.Range(0, 24)
	if r.Chance(1, 8) {
		n = r.Range(24, maxUnits)
	}
	rs := make([]rune, 0, n)
	name := ""
	switch mode {
	case 0, 1, 2: // one repertoire
		name = repNames[r.Intn(len(repNames))]
		rep := repertoires[name]
		for i := 0; i < n; i++ {
			rs = append(rs, rep[r.Intn(len(rep))])
		}
	case 3: // GSM basic from the reference table + an occasional outsider
		name = "gsm7+outsider"
		tab := ref.GSM7()
		for i := 0; i < n; i++ {
			b := byte(r.Intn(128))
			if tab.Basic[b] >= 0 {
				rs = append(rs, tab.Basic[b])
			}
		}
		if r.Chance(1, 3) && len(rs) > 0 {
			rs[r.Intn(len(rs))] = repertoires["cjk"][r.Intn(5)]
		}
	case 4: // mixture
		name = "mixed"
		for i := 0; i < n; i++ {
			rep := repertoires[repNames[r.Intn(len(repNames))]]
			rs = append(rs, rep[r.Intn(len(rep))])
		}
	default: // random scalar values
		name = "random-scalars"
		for i := 0; i < n; i++ {
			x := rune(r.Intn(0x110000))
			if x >= 0xd800 && x <= 0xdfff {
				x = 0x4e2d
			}
			rs = append(rs, x)
		}
	}
	return string(rs), name
}

func init() {
	fw.Register(&fw.Prop{
		ID:        "C05",
		Technique: "runtime monitor: round-trip-or-refuse oracle over every Unicode scalar value in short contexts and biased random strings; exact reference encodings for ASCII/UCS-2/GSM-7; unsupported coding numbers enumerated",
		Rule: "every Unicode scalar value (1,112,064) alone and in the contexts a+c, c+a, c+c (quick: alone and a+c) through all six codecs and, for the alone context, the eight protocol-level decoder pairings; packed GSM-7 additionally at each position 0..8 of a 9-septet frame; random strings biased to each repertoire edge; " +
			"all 256 CMPP coding numbers and SMPP numbers -2..300 for the unsupported-coding clause; distinct_nontrivial = distinct (stage, codec/pairing, outcome class) and (block, outcome histogram) keys",
		Assumptions: []string{
			"Latin-1 and GB18030: only the round-trip-or-refuse clause is judged (the repertoire itself is the upstream x/text table)",
			"carve-outs as stated in the property: GB18030 U+E000..U+E864; packed GSM-7 final CR / final '@' after a septet < 0x40 when the septet count is a multiple of 8; data_coding 0 inverts the unpacked form only",
		},
		Stages: []*fw.Stage{
			{
				Name: "scalars", Exhaustive: "every Unicode scalar value alone and in contexts a+c (both tiers), c+a, c+c (thorough)",
				N: func(fw.Tier) uint64 { return 0x110000 / 512 },
				Run: func(c *fw.Case) {
					for cp := rune(c.Idx * 512); cp < rune((c.Idx+1)*512); cp++ {
						if cp >= 0xd800 && cp <= 0xdfff {
							continue
						}
						s := string(cp)
						c05Text(c, s, true)
						c05Text(c, "a"+s, false)
						if c.Tier == fw.Thorough {
							c05Text(c, s+"a", false)
							c05Text(c, s+s, false)
						}
					}
					c.Cover(fmt.Sprintf("scalars/block%04d", c.Idx))
				},
			},
			{
				Name: "packedframe", Exhaustive: "every GSM-7 character at each position 0..8 of a 9-septet frame (and of an 8- and 16-septet frame)",
				N: func(fw.Tier) uint64 { return 137 },
				Run: func(c *fw.Case) {
					tab := ref.GSM7()
					var chars []rune
					for b := 0; b < 128; b++ {
						if tab.Basic[b] >= 0 {
							chars = append(chars, tab.Basic[b])
						}
					}
					for _, e := range []byte{0x0a, 0x14, 0x28, 0x29, 0x2f, 0x3c, 0x3d, 0x3e, 0x40, 0x65} {
						chars = append(chars, tab.Ext[e])
					}
					ch := chars[c.Idx]
					for _, frame := range []int{8, 9, 16} {
						for pos := 0; pos < frame; pos++ {
							for _, fill := range []rune{'a', '1', '@'} {
								rs := make([]rune, frame)
								for i := range rs {
									rs[i] = fill
								}
								rs[pos] = ch
								c05Text(c, string(rs), true)
							}
						}
					}
					c.Cover(fmt.Sprintf("packedframe/U+%04X", ch))
				},
			},
			{
				Name: "random", N: q(150000, 25000000),
				Run: func(c *fw.Case) {
					t, name := randomText(c.R, 2000)
					if !utf8.ValidString(t) {
						return
					}
					c05Text(c, t, true)
					c.Cover("random/" + name)
				},
			},
			{
				// texts whose ENCODED form begins like something else the library knows: a concatenation header
				// (05 00 03 ref total seq / 06 08 04 ref ref total seq), a TLV, a PDU header. Content is content.
				Name: "lookalike", N: q(6000, 600000),
				Run: func(c *fw.Case) {
					r := c.R
					tab := ref.GSM7()
					total := r.Range(1, 127)
					seq := r.Range(1, total)
					if r.Chance(1, 6) {
						seq = r.Pick(0, total+1)
					}
					rf := r.Range(0, 127)
					oct := []int{5, 0, 3, rf, total, seq}
					if r.Chance(1, 3) {
						oct = []int{6, 8, 4, rf, r.Range(0, 127), total, seq}
					}
					tail := string(nonNulASCII(r, r.Range(0, 20)))
					if r.Chance(1, 3) {
						tail = " por hora"
					}
					var asOctets, asSeptets, asUnits []rune
					for _, o := range oct {
						asOctets = append(asOctets, rune(o))
						if o < 128 && o != 0x1b && tab.Basic[o] >= 0 {
							asSeptets = append(asSeptets, tab.Basic[o])
						}
					}
					for i := 0; i+1 < len(oct); i += 2 {
						if u := rune(oct[i]<<8 | oct[i+1]); u < 0xd800 {
							asUnits = append(asUnits, u)
						}
					}
					if len(oct)%2 == 1 {
						asUnits = append(asUnits, rune(oct[len(oct)-1]<<8|r.Range(0x20, 0x7e)))
					}
					for i, t := range []string{string(asOctets) + tail, string(asSeptets) + tail, string(asUnits) + tail} {
						if utf8.ValidString(t) {
							c05Text(c, t, true)
							c.Cover(fmt.Sprintf("lookalike/%d/%d", len(oct), i))
						}
					}
				},
			},
			{
				Name: "unsupported", Exhaustive: "all 256 CMPP data-coding numbers; SMPP numbers -2..300 plus random ints",
				N: func(fw.Tier) uint64 { return 64 },
				Run: func(c *fw.Case) {
					ctx := context.Background()
					texts := []string{"", "hello", string(ref.UTF16BE("中文")), "\x00\x01\x7f", string(c.R.Bytes(c.R.Range(0, 30)))}
					src := texts[c.Idx%uint64(len(texts))]
					for k := 0; k < 256; k++ {
						if k == 0 || k == 8 || k == 9 || k == 15 {
							continue
						}
						c.Evals(1)
						var err error
						if !try1(c, "DecodeCMPPCContent", []byte(src), func() { _, err = protocol.DecodeCMPPCContent(ctx, src, uint8(k)) }) {
							continue
						}
						if !isUnsupportedErr(err) {
							c.Failf("unsupported-coding-accepted/cmpp", "DecodeCMPPCContent(%q, %d) returned err=%v; an unsupported data coding must be refused", src, k, err)
						}
					}
					ks := []int{}
					for k := -2; k <= 300; k++ {
						ks = append(ks, k)
					}
					for i := 0; i < 32; i++ {
						ks = append(ks, int(int32(c.R.U32())), int(c.R.U64()>>1), -int(c.R.U64()>>1))
					}
					for _, k := range ks {
						if k == 0 || k == 1 || k == 3 || k == 8 {
							continue
						}
						c.Evals(1)
						var err error
						if !try1(c, "DecodeSMPPCContent", []byte(src), func() { _, err = protocol.DecodeSMPPCContent(ctx, src, k) }) {
							continue
						}
						if !isUnsupportedErr(err) {
							c.Failf("unsupported-coding-accepted/smpp", "DecodeSMPPCContent(%q, %d) returned err=%v; an unsupported data coding must be refused", src, k, err)
						}
					}
					c.Cover(fmt.Sprintf("unsupported/text%d", c.Idx%uint64(len(texts))))
				},
			},
		},
	})
}
