package pdus

import (
	"fmt"

	"verifmon/fw"
)

func isInt(kind string) bool { return kind == "u8" || kind == "u16" || kind == "u32" || kind == "u64" }

// NumClasses is the number of boundary classes the generator knows for a field.
func NumClasses(t *Type, f *Field) int {
	switch f.Kind {
	case "u8", "u16", "u32", "u64":
		return 6
	case "u32x3":
		return 3
	case "fixed":
		return 6
	case "bin":
		return 8
	case "cstr":
		return 4
	case "list":
		return 8
	case "body":
		if lf := t.Field(f.Len); lf != nil && lf.Kind == "u32" {
			return 8
		}
		return 7
	case "tlv":
		return 10
	}
	return 1
}

func nonNul(r *fw.Rng, n int) []byte {
	b := r.Bytes(n)
	for i := range b {
		if b[i] == 0 {
			b[i] = byte(1 + r.Intn(255))
		}
	}
	return b
}

func genInt(kind string, r *fw.Rng, class int) uint64 {
	max := maxOf(kind)
	bits := map[string]uint{"u8": 8, "u16": 16, "u32": 32, "u64": 64}[kind]
	switch class {
	case 0:
		return 0
	case 1:
		return 1
	case 2:
		return uint64(1) << (bits / 2)
	case 3:
		return max - 1
	case 4:
		return max
	}
	return r.U64() & max
}

// plausible field contents (addresses, times, service codes): generators of pure noise never produce the
// value combinations real traffic has (a '+' in front of digits, decimal strings, status words)
var plausible = []string{"+8613800138000", "8613800138000", "10086", "1069", "+1", "+", "SMS", "DELIVRD", "000", "01", "2410011200", "241001120000032+", "000000010000000R", "CMT", "id:1"}

func genPlausible(r *fw.Rng, max int) []byte {
	s := plausible[r.Intn(len(plausible))]
	if len(s) > max {
		s = s[:max]
	}
	return []byte(s)
}

func genFixed(w int, r *fw.Rng, class int) []byte {
	if class == 4 && r.Chance(1, 3) {
		return genPlausible(r, w)
	}
	switch class {
	case 0:
		return []byte{}
	case 1:
		return nonNul(r, min(1, w))
	case 2:
		return nonNul(r, max(w-1, 0))
	case 3:
		return nonNul(r, w)
	case 5:
		b := make([]byte, w)
		for i := range b {
			b[i] = byte(0x80 + r.Intn(0x80))
		}
		return b
	}
	return nonNul(r, r.Range(0, w))
}

func genBin(w int, r *fw.Rng, class int) []byte {
	b := r.Bytes(w)
	switch class {
	case 0:
		// random; make sure no accidental NUL so that class 0 is the NUL-free case
		for i := range b {
			if b[i] == 0 {
				b[i] = 0x5a
			}
		}
	case 1:
		b[0] = 0
	case 2:
		b[w/2] = 0
	case 3:
		b[w-1] = 0
	case 4:
		for i := range b {
			b[i] = 0
		}
	case 5:
		for i := range b {
			b[i] = 0xff
		}
	case 6: // binary fields that happen to hold text: decimal digits (BCD-looking ids written as characters)
		for i := range b {
			b[i] = byte('0' + r.Intn(10))
		}
	case 7: // ... or hexadecimal digits
		for i := range b {
			b[i] = "0123456789abcdefABCDEF"[r.Intn(22)]
		}
	}
	return b
}

func genList(w int, r *fw.Rng, class int) [][]byte {
	var n int
	switch class {
	case 0:
		n = 0
	case 1:
		n = 1
	case 2:
		n = 12
	case 3:
		n = 13
	case 4:
		n = 99
	case 5:
		n = 100
	case 6:
		n = 255
	default:
		n = r.Range(0, 8)
		if r.Chance(1, 10) {
			n = r.Range(0, 255)
		}
	}
	l := make([][]byte, n)
	for i := range l {
		l[i] = genFixed(w, r, r.Pick(0, 2, 3, 4, 4, 4))
	}
	return l
}

func genBody(wide bool, r *fw.Rng, class int) []byte {
	var n int
	switch class {
	case 0:
		n = 0
	case 1:
		n = 1
	case 2:
		n = 140
	case 3:
		n = 255
		if wide {
			n = 256
		}
	case 5:
		return make([]byte, r.Range(1, 200))
	case 6:
		return structuredBody(r)
	case 7:
		n = r.Pick(65535, 65536, 65537)
	default:
		n = r.Range(0, 255)
		if wide && r.Chance(1, 6) {
			n = r.Range(256, 4096)
		}
	}
	return r.Bytes(n)
}

// structuredBody: message bodies as real traffic carries them — a user data header in front of the text
// (concatenation 8-bit / 16-bit reference, other information elements, several elements), a delivery receipt,
// plain text. Noise never begins with a well-formed header.
func structuredBody(r *fw.Rng) []byte {
	text := []byte("Hello, this is segment text 0123456789")[:r.Range(0, 38)]
	total := byte(r.Range(1, 5))
	seq := byte(r.Range(1, int(total)))
	ref := byte(r.U32())
	var h []byte
	switch r.Intn(8) {
	case 0, 1:
		h = []byte{0x05, 0x00, 0x03, ref, total, seq}
	case 2:
		h = []byte{0x06, 0x08, 0x04, ref, byte(r.U32()), total, seq}
	case 3: // concatenation + application port addressing
		h = []byte{0x0b, 0x00, 0x03, ref, total, seq, 0x05, 0x04, 0x0b, 0x84, 0x23, 0xf0}
	case 4: // another element only (national language shift)
		h = []byte{0x03, 0x24, 0x01, byte(r.Intn(14))}
	case 5: // sequence number outside 1..total, zero total: header-looking but not valid
		h = []byte{0x05, 0x00, 0x03, ref, byte(r.Pick(0, 1, 2)), byte(r.Pick(0, 3, 255))}
	case 6:
		return []byte("id:0123456789 sub:001 dlvrd:001 submit date:2410011200 done date:2410011201 stat:DELIVRD err:000 text:Hello")
	default:
		return text
	}
	return append(h, text...)
}

// GenTLVs makes a set of optional parameters with distinct tags.
func GenTLVs(r *fw.Rng, class int) []TLV {
	mk := func(n int, lens ...int) []TLV {
		seen := map[uint16]bool{}
		var l []TLV
		for len(l) < n {
			tag := uint16(r.U32())
			switch r.Intn(4) {
			case 0, 1:
				tag = uint16(r.Range(0, 0x20)) // the range the SMGP spec defines (and low SMPP tags)
			case 2: // tags the SMPP 3.4 specification names (§5.3.2)
				tag = []uint16{0x0005, 0x0006, 0x001E, 0x0201, 0x0204, 0x020A, 0x020C, 0x020E, 0x020F, 0x0381, 0x0420, 0x0424, 0x0425, 0x0427, 0x1204, 0x130C, 0x1380, 0x1383}[r.Intn(18)]
			}
			if seen[tag] {
				continue
			}
			seen[tag] = true
			ln := lens[r.Intn(len(lens))]
			if ln < 0 {
				ln = r.Range(0, 40)
			}
			val := r.Bytes(ln)
			if ln > 0 && r.Chance(1, 6) {
				val[ln-1] = 0 // C-octet-string valued parameters carry their terminator inside the value
			}
			l = append(l, TLV{Tag: tag, Len: uint16(ln), Val: val})
		}
		return l
	}
	switch class {
	case 0:
		return nil
	case 1:
		return mk(1, 0)
	case 2:
		return mk(1, 1)
	case 3:
		return mk(r.Range(2, 5), -1)
	case 4:
		return mk(1, 255, 256)
	case 5:
		return mk(1, 65531)
	case 6:
		return mk(r.Range(8, 16), -1, 0, 1, 2)
	case 7: // many parameters (no document limits their number)
		return mk(r.Pick(31, 32, 33, 34, 40, 64, 100), -1, 0, 1, 2)
	case 8: // several large parameters: each one legal, together longer than any 16-bit count can hold
		return mk(r.Range(3, 5), 20000, 32767, 32768, 40000, 65531)
	case 9: // one oversize-looking neighbour among small ones, and values at the widths the SMGP table names
		l := mk(r.Range(2, 4), 8, 20, 21, 1, 65531)
		for i := range l {
			if n := len(l[i].Val); n > 0 && n < 64 && r.Chance(1, 2) {
				l[i].Val[n-1] = 0
			}
		}
		return l
	}
	return mk(r.Range(0, 3), -1)
}

// Gen produces a well-formed value assignment for t. If force >= 0 that field index is put into
// boundary class `class`; every other field draws a random class. classes[i] names the class
// used for field i (for coverage accounting).
func Gen(t *Type, r *fw.Rng, force, class int) (*Values, []string) {
	v := &Values{Cmd: t.Cmd, F: map[string]any{}}
	switch r.Intn(6) {
	case 0:
		v.Seq = [3]uint32{0, 0, 0}
	case 1:
		v.Seq = [3]uint32{0xffffffff, 0xffffffff, 0xffffffff}
	case 2:
		v.Seq = [3]uint32{1, 2, 3}
	default:
		v.Seq = [3]uint32{r.U32(), r.U32(), r.U32()}
	}
	if t.HKind == "smpp" {
		v.Status = r.U32()
		if r.Chance(1, 2) {
			v.Status = uint32(r.Intn(0x100))
		}
	}
	if t.BodylessOnError && r.Bool() {
		v.Status = 0
	}
	classes := make([]string, len(t.Fields))
	derived := map[string]bool{}
	for _, f := range t.Fields {
		if f.Count != "" {
			derived[f.Count] = true
		}
		if f.Len != "" {
			derived[f.Len] = true
		}
	}
	for i := range t.Fields {
		f := &t.Fields[i]
		if derived[f.Spec] {
			classes[i] = "derived"
			continue
		}
		k := r.Intn(NumClasses(t, f))
		if f.Kind == "body" && k == 7 && !(force == i) {
			k = 4 // the 64 KiB bodies only when asked for
		}
		if f.Kind == "tlv" && k == 5 && !(force == i) {
			k = 3
		}
		if f.Kind == "list" && k >= 4 && k <= 6 && !(force == i) && r.Chance(3, 4) {
			k = 7
		}
		if force == i {
			k = class
		}
		classes[i] = fmt.Sprintf("%s#%d", f.Kind, k)
		switch f.Kind {
		case "u8", "u16", "u32", "u64":
			v.F[f.Spec] = genInt(f.Kind, r, k)
		case "u32x3":
			switch k {
			case 0:
				v.F[f.Spec] = [3]uint32{}
			case 1:
				v.F[f.Spec] = [3]uint32{0xffffffff, 0xffffffff, 0xffffffff}
			default:
				v.F[f.Spec] = [3]uint32{r.U32(), r.U32(), r.U32()}
			}
		case "fixed":
			v.F[f.Spec] = genFixed(f.W, r, k)
		case "bin":
			v.F[f.Spec] = genBin(f.W, r, k)
			if f.Repr == "hex-after-decode" && r.Bool() { // these encoders take the raw ten octets as well as the 20 hex digits
				if v.Raw == nil {
					v.Raw = map[string]bool{}
				}
				v.Raw[f.Spec] = true
			}
		case "cstr":
			switch k {
			case 0:
				v.F[f.Spec] = []byte{}
			case 1:
				v.F[f.Spec] = nonNul(r, min(1, f.W-1))
			case 2:
				v.F[f.Spec] = nonNul(r, f.W-1)
			default:
				v.F[f.Spec] = nonNul(r, r.Range(0, f.W-1))
				if r.Chance(1, 3) {
					v.F[f.Spec] = genPlausible(r, f.W-1)
				}
			}
		case "list":
			l := genList(f.W, r, k)
			v.F[f.Spec] = l
			v.F[f.Count] = uint64(len(l))
		case "body":
			lf := t.Field(f.Len)
			b := genBody(lf.Kind == "u32", r, k)
			v.F[f.Spec] = b
			v.F[f.Len] = uint64(len(b))
		case "tlv":
			v.F[f.Spec] = GenTLVs(r, k)
		}
	}
	BlankBodyOnError(t, v)
	return v, classes
}

func min(a, b int) int {
	if a < b {
		return a
	}
	return b
}

func max(a, b int) int {
	if a > b {
		return a
	}
	return b
}

// SweepSize is the number of (field, class) pairs of t (at least 1, for body-less types).
func SweepSize(t *Type) int {
	n := 0
	for i := range t.Fields {
		n += NumClasses(t, &t.Fields[i])
	}
	if n == 0 {
		n = 1
	}
	return n
}

// SweepPick maps k in [0,SweepSize) to a (field, class) pair (-1,0 for body-less types).
func SweepPick(t *Type, k int) (field, class int) {
	for i := range t.Fields {
		n := NumClasses(t, &t.Fields[i])
		if k < n {
			return i, k
		}
		k -= n
	}
	return -1, 0
}
