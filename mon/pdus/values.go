package pdus

import (
	"bytes"
	"encoding/binary"
	"encoding/hex"
	"errors"
	"fmt"
	"sort"
	"strings"
)

// TLV is one optional parameter triplet as it appears (or should appear) on the wire.
type TLV struct {
	Tag uint16
	Len uint16 // the length field; equals len(Val) in well-formed values
	Val []byte
}

// Values is a protocol-level description of one PDU: header words and body fields by
// specification name.  Field representation by kind:
//
//	uN -> uint64, fixed/bin/cstr/body -> []byte, list -> [][]byte, tlv -> []TLV, u32x3 -> [3]uint32
type Values struct {
	Cmd    uint32
	Status uint32    // SMPP only
	Seq    [3]uint32 // SGIP: all three words; others: Seq[2]
	F      map[string]any
	// Raw: fields whose struct representation is hex (SMGP MsgID) are given to the encoder as the raw octets instead
	Raw map[string]bool
}

func (v *Values) U(spec string) uint64 {
	x, _ := v.F[spec].(uint64)
	return x
}

func (v *Values) B(spec string) []byte {
	x, _ := v.F[spec].([]byte)
	return x
}

func (v *Values) Clone() *Values {
	c := &Values{Cmd: v.Cmd, Status: v.Status, Seq: v.Seq, F: map[string]any{}}
	for k, x := range v.F {
		switch y := x.(type) {
		case []byte:
			c.F[k] = append([]byte(nil), y...)
		case [][]byte:
			l := make([][]byte, len(y))
			for i := range y {
				l[i] = append([]byte(nil), y[i]...)
			}
			c.F[k] = l
		case []TLV:
			l := make([]TLV, len(y))
			for i := range y {
				l[i] = TLV{y[i].Tag, y[i].Len, append([]byte(nil), y[i].Val...)}
			}
			c.F[k] = l
		default:
			c.F[k] = x
		}
	}
	return c
}

func maxOf(kind string) uint64 {
	switch kind {
	case "u8":
		return 0xff
	case "u16":
		return 0xffff
	case "u32":
		return 0xffffffff
	}
	return ^uint64(0)
}

// ---------------------------------------------------------------------------
// reference encoder / decoder

var ErrRefShort = errors.New("reference decoder: input ends inside a mandatory field")

// RefHeader writes the header of family kind into out (length filled by caller).
func refHeader(t *Type, v *Values, total int) []byte {
	out := make([]byte, 0, total)
	var w [4]byte
	put := func(x uint32) {
		binary.BigEndian.PutUint32(w[:], x)
		out = append(out, w[:]...)
	}
	put(uint32(total))
	put(v.Cmd)
	switch t.HKind {
	case "smpp":
		put(v.Status)
		put(v.Seq[2])
	case "sgip":
		put(v.Seq[0])
		put(v.Seq[1])
		put(v.Seq[2])
	default:
		put(v.Seq[2])
	}
	return out
}

// RefBody emits the body of a PDU exactly as the specification table prescribes.
// tlvOrder (optional) is a permutation applied to the optional-parameter tail.
func RefBody(fields []Field, v *Values) []byte {
	var out []byte
	for _, f := range fields {
		x := v.F[f.Spec]
		switch f.Kind {
		case "u8":
			out = append(out, byte(x.(uint64)))
		case "u16":
			out = append(out, byte(x.(uint64)>>8), byte(x.(uint64)))
		case "u32":
			var w [4]byte
			binary.BigEndian.PutUint32(w[:], uint32(x.(uint64)))
			out = append(out, w[:]...)
		case "u64":
			var w [8]byte
			binary.BigEndian.PutUint64(w[:], x.(uint64))
			out = append(out, w[:]...)
		case "u32x3":
			a := x.([3]uint32)
			for _, y := range a {
				var w [4]byte
				binary.BigEndian.PutUint32(w[:], y)
				out = append(out, w[:]...)
			}
		case "fixed", "bin":
			b := x.([]byte)
			slot := make([]byte, f.W)
			copy(slot, b)
			out = append(out, slot...)
		case "cstr":
			out = append(out, x.([]byte)...)
			out = append(out, 0)
		case "list":
			for _, e := range x.([][]byte) {
				slot := make([]byte, f.W)
				copy(slot, e)
				out = append(out, slot...)
			}
		case "body":
			out = append(out, x.([]byte)...)
		case "tlv":
			for _, tl := range x.([]TLV) {
				out = append(out, byte(tl.Tag>>8), byte(tl.Tag), byte(tl.Len>>8), byte(tl.Len))
				out = append(out, tl.Val...)
			}
		default:
			panic("verifmon harness: unknown kind " + f.Kind)
		}
	}
	return out
}

// RefEncode is the specification image of (t, v).
func RefEncode(t *Type, v *Values) []byte {
	if t.BodylessOnError && v.Status != 0 {
		return refHeader(t, v, t.HeaderLen()) // "the PDU Body is not returned if the command_status field contains a non-zero value"
	}
	body := RefBody(t.Fields, v)
	out := refHeader(t, v, t.HeaderLen()+len(body))
	return append(out, body...)
}

// RefDecode parses an image with the table; strict: every mandatory field must be complete.
// TLV tails are parsed strictly as well (a trailing fragment is an error).
func RefDecode(t *Type, b []byte) (*Values, error) {
	if len(b) < t.HeaderLen() {
		return nil, ErrRefShort
	}
	v := &Values{F: map[string]any{}}
	v.Cmd = binary.BigEndian.Uint32(b[4:8])
	switch t.HKind {
	case "smpp":
		v.Status = binary.BigEndian.Uint32(b[8:12])
		v.Seq[2] = binary.BigEndian.Uint32(b[12:16])
	case "sgip":
		v.Seq[0] = binary.BigEndian.Uint32(b[8:12])
		v.Seq[1] = binary.BigEndian.Uint32(b[12:16])
		v.Seq[2] = binary.BigEndian.Uint32(b[16:20])
	default:
		v.Seq[2] = binary.BigEndian.Uint32(b[8:12])
	}
	if t.BodylessOnError && v.Status != 0 && len(b) == t.HeaderLen() {
		blankBody(t, v)
		return v, nil
	}
	rest, err := RefDecodeBody(t.Fields, b[t.HeaderLen():], v)
	if err != nil {
		return nil, err
	}
	if len(rest) != 0 {
		return v, fmt.Errorf("reference decoder: %d trailing octets", len(rest))
	}
	return v, nil
}

func RefDecodeBody(fields []Field, b []byte, v *Values) (rest []byte, err error) {
	need := func(n int) bool { return len(b) >= n }
	for _, f := range fields {
		switch f.Kind {
		case "u8":
			if !need(1) {
				return nil, ErrRefShort
			}
			v.F[f.Spec] = uint64(b[0])
			b = b[1:]
		case "u16":
			if !need(2) {
				return nil, ErrRefShort
			}
			v.F[f.Spec] = uint64(binary.BigEndian.Uint16(b))
			b = b[2:]
		case "u32":
			if !need(4) {
				return nil, ErrRefShort
			}
			v.F[f.Spec] = uint64(binary.BigEndian.Uint32(b))
			b = b[4:]
		case "u64":
			if !need(8) {
				return nil, ErrRefShort
			}
			v.F[f.Spec] = binary.BigEndian.Uint64(b)
			b = b[8:]
		case "u32x3":
			if !need(12) {
				return nil, ErrRefShort
			}
			v.F[f.Spec] = [3]uint32{binary.BigEndian.Uint32(b), binary.BigEndian.Uint32(b[4:]), binary.BigEndian.Uint32(b[8:])}
			b = b[12:]
		case "fixed":
			if !need(f.W) {
				return nil, ErrRefShort
			}
			s := b[:f.W]
			if i := bytes.IndexByte(s, 0); i >= 0 {
				s = s[:i]
			}
			v.F[f.Spec] = append([]byte(nil), s...)
			b = b[f.W:]
		case "bin":
			if !need(f.W) {
				return nil, ErrRefShort
			}
			v.F[f.Spec] = append([]byte(nil), b[:f.W]...)
			b = b[f.W:]
		case "cstr":
			i := bytes.IndexByte(b, 0)
			if i < 0 {
				return nil, ErrRefShort
			}
			v.F[f.Spec] = append([]byte(nil), b[:i]...)
			b = b[i+1:]
		case "list":
			n := int(v.U(f.Count))
			l := make([][]byte, 0, n)
			for k := 0; k < n; k++ {
				if !need(f.W) {
					return nil, ErrRefShort
				}
				s := b[:f.W]
				if i := bytes.IndexByte(s, 0); i >= 0 {
					s = s[:i]
				}
				l = append(l, append([]byte(nil), s...))
				b = b[f.W:]
			}
			v.F[f.Spec] = l
		case "body":
			if v.U(f.Len) > uint64(len(b)) { // compared before narrowing: int is 32 bits wide in the 386 build
				return nil, ErrRefShort
			}
			n := int(v.U(f.Len))
			if !need(n) {
				return nil, ErrRefShort
			}
			v.F[f.Spec] = append([]byte(nil), b[:n]...)
			b = b[n:]
		case "tlv":
			var l []TLV
			for len(b) > 0 {
				if len(b) < 4 {
					return nil, fmt.Errorf("reference decoder: truncated TLV header")
				}
				tag, ln := binary.BigEndian.Uint16(b), binary.BigEndian.Uint16(b[2:])
				if len(b) < 4+int(ln) {
					return nil, fmt.Errorf("reference decoder: truncated TLV value")
				}
				l = append(l, TLV{tag, ln, append([]byte(nil), b[4:4+int(ln)]...)})
				b = b[4+int(ln):]
			}
			v.F[f.Spec] = l
		}
	}
	return b, nil
}

// MandatoryLen is the number of octets up to and including the last mandatory field of
// image b (the whole image without its TLV tail); -1 if b is not a complete image.
// blankBody gives every body field the value an absent body decodes to.
func blankBody(t *Type, v *Values) {
	for _, f := range t.Fields {
		switch f.Kind {
		case "u8", "u16", "u32", "u64":
			v.F[f.Spec] = uint64(0)
		case "tlv":
			v.F[f.Spec] = []TLV(nil)
		case "list":
			v.F[f.Spec] = [][]byte(nil)
		case "u32x3":
			v.F[f.Spec] = [3]uint32{}
		default:
			v.F[f.Spec] = []byte{}
		}
	}
}

// BlankBodyOnError applies the "no body when command_status is non-zero" rule to a value assignment.
func BlankBodyOnError(t *Type, v *Values) {
	if t.BodylessOnError && v.Status != 0 {
		blankBody(t, v)
	}
}

func MandatoryLen(t *Type, b []byte) int {
	var fields []Field
	for _, f := range t.Fields {
		if f.Kind != "tlv" {
			fields = append(fields, f)
		}
	}
	if len(b) < t.HeaderLen() {
		return -1
	}
	if t.BodylessOnError && len(b) == t.HeaderLen() && binary.BigEndian.Uint32(b[8:12]) != 0 {
		return len(b) // an error response: complete without a body
	}
	v := &Values{F: map[string]any{}}
	rest, err := RefDecodeBody(fields, b[t.HeaderLen():], v)
	if err != nil {
		return -1
	}
	return len(b) - len(rest)
}

// ---------------------------------------------------------------------------
// canonical comparison

// canonTLV: optional parameters compare as a set keyed by tag (last one wins, as a map would).
// CanonTLV renders optional parameters as a set keyed by tag (last one wins, as a map would).
func CanonTLV(l []TLV) string { return canonTLV(l) }

func canonTLV(l []TLV) string {
	m := map[uint16]TLV{}
	for _, t := range l {
		m[t.Tag] = t
	}
	keys := make([]int, 0, len(m))
	for k := range m {
		keys = append(keys, int(k))
	}
	sort.Ints(keys)
	var sb strings.Builder
	for _, k := range keys {
		t := m[uint16(k)]
		fmt.Fprintf(&sb, "%04x:%d:%s;", t.Tag, t.Len, hex.EncodeToString(t.Val))
	}
	return sb.String()
}

func canon(kind string, x any) string {
	switch y := x.(type) {
	case nil:
		switch kind {
		case "u8", "u16", "u32", "u64":
			return "0"
		}
		return ""
	case uint64:
		return fmt.Sprint(y)
	case []byte:
		return hex.EncodeToString(y)
	case [][]byte:
		var sb strings.Builder
		for _, e := range y {
			sb.WriteString(hex.EncodeToString(e))
			sb.WriteByte(',')
		}
		return sb.String()
	case []TLV:
		return canonTLV(y)
	case [3]uint32:
		return fmt.Sprint(y)
	}
	return fmt.Sprintf("?%T", x)
}

// Diff lists the fields in which a and b differ (header included). skipLen: header length is not part of Values.
func Diff(t *Type, a, b *Values) []string {
	var d []string
	if a.Cmd != b.Cmd {
		d = append(d, fmt.Sprintf("header.command: %#x != %#x", a.Cmd, b.Cmd))
	}
	if t.HKind == "smpp" && a.Status != b.Status {
		d = append(d, fmt.Sprintf("header.status: %d != %d", a.Status, b.Status))
	}
	if t.HKind == "sgip" {
		if a.Seq != b.Seq {
			d = append(d, fmt.Sprintf("header.sequence: %v != %v", a.Seq, b.Seq))
		}
	} else if a.Seq[2] != b.Seq[2] {
		d = append(d, fmt.Sprintf("header.sequence: %d != %d", a.Seq[2], b.Seq[2]))
	}
	for _, f := range t.Fields {
		ca, cb := canon(f.Kind, a.F[f.Spec]), canon(f.Kind, b.F[f.Spec])
		if ca != cb {
			d = append(d, fmt.Sprintf("%s(%s): %s != %s", f.Spec, f.Go, trunc(ca), trunc(cb)))
		}
	}
	return d
}

func trunc(s string) string {
	if len(s) > 120 {
		return fmt.Sprintf("%s…(%d)", s[:120], len(s))
	}
	return s
}

// Describe renders values compactly for replay files.
func Describe(t *Type, v *Values) string {
	var sb strings.Builder
	fmt.Fprintf(&sb, "%s cmd=%#x status=%d seq=%v", t.Key(), v.Cmd, v.Status, v.Seq)
	for _, f := range t.Fields {
		fmt.Fprintf(&sb, " %s=%s", f.Spec, trunc(canon(f.Kind, v.F[f.Spec])))
	}
	return sb.String()
}
