// Package pdus is the table-driven side of the PDU monitors: the wire tables transcribed
// from the protocol documents (spec/wire_tables.json), an independent reference codec over
// them, and the reflection glue that builds library PDU structs from generated values and
// reads them back.  Nothing here calls packet.Reader/Writer.
package pdus

import (
	"encoding/json"
	"fmt"
	"os"
	"path/filepath"
	"strconv"
	"strings"
	"sync"

	sms "github.com/hujm2023/go-sms-protocol"
	"github.com/hujm2023/go-sms-protocol/cmpp/cmpp20"
	"github.com/hujm2023/go-sms-protocol/cmpp/cmpp30"
	"github.com/hujm2023/go-sms-protocol/sgip/sgip12"
	"github.com/hujm2023/go-sms-protocol/smgp/smgp30"
	"github.com/hujm2023/go-sms-protocol/smpp/smpp34"
)

// Field is one row of a specification table.
type Field struct {
	Spec  string `json:"spec"`
	Kind  string `json:"kind"` // u8 u16 u32 u64 fixed bin cstr list body tlv u32x3
	W     int    `json:"w"`
	Go    string `json:"go"`
	Count string `json:"count,omitempty"`
	Len   string `json:"len,omitempty"`
	Repr  string `json:"repr,omitempty"`
}

// Type is one PDU type of one protocol family.
type Type struct {
	Family string // cmpp20 cmpp30 sgip12 smgp30 smpp34
	HKind  string // cmpp smgp smpp sgip
	Name   string
	Cmd    uint32
	Go     string
	Resp   string
	Src    string
	Fields []Field
	// Extra are struct fields the library carries beyond the specification layout.
	Extra []Field
	// BodylessOnError: the document says the PDU body is not returned when command_status is non-zero
	// (SMPP 3.4 §4.1.2 bind_transmitter_resp, §4.1.4 bind_receiver_resp, §4.4.2 submit_sm_resp)
	BodylessOnError bool
	New             func() sms.PDU
	lib             *Type
}

// Lib is the type as the library sees it: specification fields followed by Extra.
func (t *Type) Lib() *Type {
	if len(t.Extra) == 0 {
		return t
	}
	if t.lib == nil {
		c := *t
		c.Fields = append(append([]Field(nil), t.Fields...), t.Extra...)
		c.Extra = nil
		t.lib = &c
	}
	return t.lib
}

// Key identifies the type (family/Go/name: the three SMPP bind flavours share a Go type).
func (t *Type) Key() string { return t.Family + "." + t.Go + "/" + t.Name }

func (t *Type) HeaderLen() int {
	switch t.HKind {
	case "smpp":
		return 16
	case "sgip":
		return 20
	}
	return 12
}

func (t *Type) IsResponse() bool { return t.Cmd&0x80000000 != 0 }

func (t *Type) Field(spec string) *Field {
	for i := range t.Fields {
		if t.Fields[i].Spec == spec {
			return &t.Fields[i]
		}
	}
	return nil
}

var constructors = map[string]func() sms.PDU{
	"cmpp20.PduConnect":        func() sms.PDU { return new(cmpp20.PduConnect) },
	"cmpp20.PduConnectResp":    func() sms.PDU { return new(cmpp20.PduConnectResp) },
	"cmpp20.PduTerminate":      func() sms.PDU { return new(cmpp20.PduTerminate) },
	"cmpp20.PduTerminateResp":  func() sms.PDU { return new(cmpp20.PduTerminateResp) },
	"cmpp20.PduSubmit":         func() sms.PDU { return new(cmpp20.PduSubmit) },
	"cmpp20.PduSubmitResp":     func() sms.PDU { return new(cmpp20.PduSubmitResp) },
	"cmpp20.PduDeliver":        func() sms.PDU { return new(cmpp20.PduDeliver) },
	"cmpp20.PduDeliverResp":    func() sms.PDU { return new(cmpp20.PduDeliverResp) },
	"cmpp20.PduQuery":          func() sms.PDU { return new(cmpp20.PduQuery) },
	"cmpp20.PduQueryResp":      func() sms.PDU { return new(cmpp20.PduQueryResp) },
	"cmpp20.PduActiveTest":     func() sms.PDU { return new(cmpp20.PduActiveTest) },
	"cmpp20.PduActiveTestResp": func() sms.PDU { return new(cmpp20.PduActiveTestResp) },

	"cmpp30.Connect":        func() sms.PDU { return new(cmpp30.Connect) },
	"cmpp30.ConnectResp":    func() sms.PDU { return new(cmpp30.ConnectResp) },
	"cmpp30.Terminate":      func() sms.PDU { return new(cmpp30.Terminate) },
	"cmpp30.TerminateResp":  func() sms.PDU { return new(cmpp30.TerminateResp) },
	"cmpp30.Submit":         func() sms.PDU { return new(cmpp30.Submit) },
	"cmpp30.SubmitResp":     func() sms.PDU { return new(cmpp30.SubmitResp) },
	"cmpp30.Deliver":        func() sms.PDU { return new(cmpp30.Deliver) },
	"cmpp30.DeliverResp":    func() sms.PDU { return new(cmpp30.DeliverResp) },
	"cmpp30.Query":          func() sms.PDU { return new(cmpp30.Query) },
	"cmpp30.QueryResp":      func() sms.PDU { return new(cmpp30.QueryResp) },
	"cmpp30.Cancel":         func() sms.PDU { return new(cmpp30.Cancel) },
	"cmpp30.CancelResp":     func() sms.PDU { return new(cmpp30.CancelResp) },
	"cmpp30.ActiveTest":     func() sms.PDU { return new(cmpp30.ActiveTest) },
	"cmpp30.ActiveTestResp": func() sms.PDU { return new(cmpp30.ActiveTestResp) },

	"sgip12.Bind":        func() sms.PDU { return new(sgip12.Bind) },
	"sgip12.BindResp":    func() sms.PDU { return new(sgip12.BindResp) },
	"sgip12.Unbind":      func() sms.PDU { return new(sgip12.Unbind) },
	"sgip12.UnbindResp":  func() sms.PDU { return new(sgip12.UnbindResp) },
	"sgip12.Submit":      func() sms.PDU { return new(sgip12.Submit) },
	"sgip12.SubmitResp":  func() sms.PDU { return new(sgip12.SubmitResp) },
	"sgip12.Deliver":     func() sms.PDU { return new(sgip12.Deliver) },
	"sgip12.DeliverResp": func() sms.PDU { return new(sgip12.DeliverResp) },
	"sgip12.Report":      func() sms.PDU { return new(sgip12.Report) },
	"sgip12.ReportResp":  func() sms.PDU { return new(sgip12.ReportResp) },

	"smgp30.Login":          func() sms.PDU { return new(smgp30.Login) },
	"smgp30.LoginResp":      func() sms.PDU { return new(smgp30.LoginResp) },
	"smgp30.Submit":         func() sms.PDU { return new(smgp30.Submit) },
	"smgp30.SubmitResp":     func() sms.PDU { return new(smgp30.SubmitResp) },
	"smgp30.Deliver":        func() sms.PDU { return new(smgp30.Deliver) },
	"smgp30.DeliverResp":    func() sms.PDU { return new(smgp30.DeliverResp) },
	"smgp30.ActiveTest":     func() sms.PDU { return new(smgp30.ActiveTest) },
	"smgp30.ActiveTestResp": func() sms.PDU { return new(smgp30.ActiveTestResp) },
	"smgp30.Exit":           func() sms.PDU { return new(smgp30.Exit) },
	"smgp30.ExitResp":       func() sms.PDU { return new(smgp30.ExitResp) },

	"smpp34.Bind":            func() sms.PDU { return new(smpp34.Bind) },
	"smpp34.BindResp":        func() sms.PDU { return new(smpp34.BindResp) },
	"smpp34.Unbind":          func() sms.PDU { return new(smpp34.Unbind) },
	"smpp34.UnBindResp":      func() sms.PDU { return new(smpp34.UnBindResp) },
	"smpp34.GenericNack":     func() sms.PDU { return new(smpp34.GenericNack) },
	"smpp34.SubmitSm":        func() sms.PDU { return new(smpp34.SubmitSm) },
	"smpp34.SubmitSmResp":    func() sms.PDU { return new(smpp34.SubmitSmResp) },
	"smpp34.DeliverSm":       func() sms.PDU { return new(smpp34.DeliverSm) },
	"smpp34.DeliverSmResp":   func() sms.PDU { return new(smpp34.DeliverSmResp) },
	"smpp34.EnquireLink":     func() sms.PDU { return new(smpp34.EnquireLink) },
	"smpp34.EnquireLinkResp": func() sms.PDU { return new(smpp34.EnquireLinkResp) },
}

// Dispatchers maps a family to its Decode* entry point.
var Dispatchers = map[string]func([]byte) (sms.PDU, error){
	"cmpp20": cmpp20.DecodeCMPP20,
	"cmpp30": cmpp30.DecodeCMPP30,
	"sgip12": sgip12.DecodeSGIP12,
	"smgp30": smgp30.DecodeSMGP30,
	"smpp34": smpp34.DecodeSMPP34,
}

var Families = []string{"cmpp20", "cmpp30", "sgip12", "smgp30", "smpp34"}

// Tables holds all PDU types in a fixed order.
type Tables struct {
	Types    []*Type
	ByKey    map[string]*Type
	ByFamily map[string][]*Type
	// StatusReport is the CMPP status-report body (cmpp.SubPduDeliveryContent).
	StatusReport []Field
	SMGPReceipt  [][2]string // key spellings "a|b", width
	raw          map[string]json.RawMessage
}

// VerifDir is the directory that holds spec/, known_findings.json …
func VerifDir() string {
	if d := os.Getenv("VERIF_DIR"); d != "" {
		return d
	}
	exe, err := os.Executable()
	if err == nil {
		d := filepath.Dir(filepath.Dir(filepath.Dir(exe)))
		if _, err := os.Stat(filepath.Join(d, "spec", "wire_tables.json")); err == nil {
			return d
		}
	}
	return "/verif"
}

var (
	loaded   *Tables
	loadOnce sync.Once
)

// Load reads spec/wire_tables.json (once per process; safe for concurrent use).
func Load() *Tables {
	loadOnce.Do(func() { loaded = load() })
	return loaded
}

func load() *Tables {
	b, err := os.ReadFile(filepath.Join(VerifDir(), "spec", "wire_tables.json"))
	if err != nil {
		panic("verifmon harness: cannot read wire tables: " + err.Error())
	}
	var raw map[string]json.RawMessage
	if err := json.Unmarshal(b, &raw); err != nil {
		panic("verifmon harness: wire tables: " + err.Error())
	}
	ts := &Tables{ByKey: map[string]*Type{}, ByFamily: map[string][]*Type{}, raw: raw}
	for _, fam := range Families {
		var f struct {
			Header string `json:"header"`
			Pdus   []struct {
				Name   string  `json:"name"`
				Cmd    string  `json:"cmd"`
				Go     string  `json:"go"`
				Resp   string  `json:"resp"`
				Src    string  `json:"src"`
				Fields []Field `json:"fields"`
				Extra  []Field `json:"extra"`
				NoBody bool    `json:"bodyless_on_error"`
			} `json:"pdus"`
			StatusReportBody *struct {
				Fields []Field `json:"fields"`
			} `json:"status_report_body"`
		}
		if err := json.Unmarshal(raw[fam], &f); err != nil {
			panic("verifmon harness: wire tables " + fam + ": " + err.Error())
		}
		for _, p := range f.Pdus {
			cmd, err := strconv.ParseUint(strings.TrimPrefix(p.Cmd, "0x"), 16, 32)
			if err != nil {
				panic("verifmon harness: bad cmd " + p.Cmd)
			}
			t := &Type{Family: fam, HKind: f.Header, Name: p.Name, Cmd: uint32(cmd), Go: p.Go, Resp: p.Resp, Src: p.Src, Fields: p.Fields, Extra: p.Extra, BodylessOnError: p.NoBody}
			t.New = constructors[fam+"."+p.Go]
			if t.New == nil {
				panic(fmt.Sprintf("verifmon harness: no constructor for %s.%s", fam, p.Go))
			}
			_ = t.Lib() // build the cached library view now: Lib() is called from many goroutines later
			ts.Types = append(ts.Types, t)
			ts.ByKey[t.Key()] = t
			ts.ByFamily[fam] = append(ts.ByFamily[fam], t)
		}
		if f.StatusReportBody != nil {
			ts.StatusReport = f.StatusReportBody.Fields
		}
	}
	goTypes := map[string]bool{}
	for _, t := range ts.Types {
		goTypes[t.Family+"."+t.Go] = true
	}
	if len(goTypes) != 57 || len(goTypes) != len(constructors) {
		panic(fmt.Sprintf("verifmon harness: expected 57 PDU Go types, tables have %d (constructors %d)", len(goTypes), len(constructors)))
	}
	return ts
}

// ByName finds a type of a family by its specification name.
func (ts *Tables) ByName(fam, name string) *Type {
	for _, t := range ts.ByFamily[fam] {
		if t.Name == name {
			return t
		}
	}
	return nil
}

// ByCmd finds the types of a family with a command id.
func (ts *Tables) ByCmd(fam string, cmd uint32) *Type {
	for _, t := range ts.ByFamily[fam] {
		if t.Cmd == cmd {
			return t
		}
	}
	return nil
}
