package pdus

import (
	"encoding/hex"
	"fmt"
	"reflect"

	sms "github.com/hujm2023/go-sms-protocol"
	"github.com/hujm2023/go-sms-protocol/smgp"
	"github.com/hujm2023/go-sms-protocol/smpp"
)

func isLowerHex(s string, n int) bool {
	if len(s) != n {
		return false
	}
	for i := 0; i < len(s); i++ {
		c := s[i]
		if !(c >= '0' && c <= '9' || c >= 'a' && c <= 'f') {
			return false
		}
	}
	return true
}

func headerValue(t *Type, pv reflect.Value) reflect.Value {
	h := pv.Elem().FieldByName("Header")
	if !h.IsValid() {
		panic("verifmon harness: no Header field in " + t.Key())
	}
	return h
}

// Build makes a library PDU struct carrying v. The header length word is left zero
// (encoders fill it in). SMGP message ids (repr hex) are given to the struct in the 20-hex-digit
// form its decoder produces.
func Build(t *Type, v *Values) sms.PDU {
	p := t.New()
	Fill(t, p, v)
	return p
}

// SetHeaderLength stores an arbitrary value in the PDU's header length word (encoders must not trust it).
func SetHeaderLength(t *Type, p sms.PDU, n uint32) {
	h := headerValue(t, reflect.ValueOf(p))
	if t.HKind == "smpp" {
		h.FieldByName("Length").SetUint(uint64(n))
	} else {
		h.FieldByName("TotalLength").SetUint(uint64(n))
	}
}

// Fill stores v into an existing PDU object (every table field is overwritten; absent collections become nil).
func Fill(t *Type, p sms.PDU, v *Values) {
	pv := reflect.ValueOf(p)
	h := headerValue(t, pv)
	switch t.HKind {
	case "smpp":
		h.FieldByName("ID").SetUint(uint64(v.Cmd))
		h.FieldByName("Status").SetUint(uint64(v.Status))
		h.FieldByName("Sequence").SetUint(uint64(v.Seq[2]))
	case "sgip":
		h.FieldByName("CommandID").SetUint(uint64(v.Cmd))
		s := h.FieldByName("Sequence")
		for i := 0; i < 3; i++ {
			s.Index(i).SetUint(uint64(v.Seq[i]))
		}
	default:
		h.FieldByName("CommandID").SetUint(uint64(v.Cmd))
		h.FieldByName("SequenceID").SetUint(uint64(v.Seq[2]))
	}
	for _, f := range t.Fields {
		x, ok := v.F[f.Spec]
		if !ok {
			continue
		}
		fv := pv.Elem().FieldByName(f.Go)
		if !fv.IsValid() {
			panic(fmt.Sprintf("verifmon harness: %s has no field %s", t.Key(), f.Go))
		}
		switch f.Kind {
		case "u8", "u16", "u32", "u64":
			fv.SetUint(x.(uint64))
		case "u32x3":
			a := x.([3]uint32)
			for i := 0; i < 3; i++ {
				fv.Index(i).SetUint(uint64(a[i]))
			}
		case "fixed", "bin", "cstr", "body":
			b := x.([]byte)
			if f.Repr != "" && !(v.Raw[f.Spec] && len(b) == f.W) { // hex representation in the struct
				b = []byte(hex.EncodeToString(b))
			} // else: the raw octets themselves, which the encoders accept as well
			if fv.Kind() == reflect.String {
				fv.SetString(string(b))
			} else {
				if len(b) == 0 {
					fv.Set(reflect.Zero(fv.Type())) // nil
					continue
				}
				fv.SetBytes(append([]byte(nil), b...))
			}
		case "list":
			l := x.([][]byte)
			if len(l) == 0 {
				fv.Set(reflect.Zero(fv.Type()))
				continue
			}
			s := make([]string, len(l))
			for i := range l {
				s[i] = string(l[i])
			}
			fv.Set(reflect.ValueOf(s))
		case "tlv":
			l := x.([]TLV)
			if len(l) == 0 {
				fv.Set(reflect.Zero(fv.Type()))
				continue
			}
			switch fv.Interface().(type) {
			case smpp.TLVs:
				m := smpp.TLVs{}
				for _, tl := range l {
					m[tl.Tag] = smpp.NewTLV(tl.Tag, append([]byte(nil), tl.Val...))
				}
				fv.Set(reflect.ValueOf(m))
			case smgp.Options:
				m := smgp.Options{}
				for _, tl := range l {
					m[smgp.Tag(tl.Tag)] = smgp.NewOption(smgp.Tag(tl.Tag), append([]byte(nil), tl.Val...))
				}
				fv.Set(reflect.ValueOf(m))
			default:
				panic("verifmon harness: unknown TLV container " + fv.Type().String())
			}
		}
	}
}

// HeaderLength reads the length word stored in the PDU's header struct.
func HeaderLength(t *Type, p sms.PDU) uint32 {
	h := headerValue(t, reflect.ValueOf(p))
	if t.HKind == "smpp" {
		return uint32(h.FieldByName("Length").Uint())
	}
	return uint32(h.FieldByName("TotalLength").Uint())
}

// Extract reads a library PDU struct back into Values.
func Extract(t *Type, p sms.PDU) *Values {
	v := &Values{F: map[string]any{}}
	pv := reflect.ValueOf(p)
	h := headerValue(t, pv)
	switch t.HKind {
	case "smpp":
		v.Cmd = uint32(h.FieldByName("ID").Uint())
		v.Status = uint32(h.FieldByName("Status").Uint())
		v.Seq[2] = uint32(h.FieldByName("Sequence").Uint())
	case "sgip":
		v.Cmd = uint32(h.FieldByName("CommandID").Uint())
		s := h.FieldByName("Sequence")
		for i := 0; i < 3; i++ {
			v.Seq[i] = uint32(s.Index(i).Uint())
		}
	default:
		v.Cmd = uint32(h.FieldByName("CommandID").Uint())
		v.Seq[2] = uint32(h.FieldByName("SequenceID").Uint())
	}
	for _, f := range t.Fields {
		fv := pv.Elem().FieldByName(f.Go)
		switch f.Kind {
		case "u8", "u16", "u32", "u64":
			v.F[f.Spec] = fv.Uint()
		case "u32x3":
			var a [3]uint32
			for i := 0; i < 3; i++ {
				a[i] = uint32(fv.Index(i).Uint())
			}
			v.F[f.Spec] = a
		case "fixed", "bin", "cstr", "body":
			var b []byte
			if fv.Kind() == reflect.String {
				b = []byte(fv.String())
			} else {
				b = append([]byte(nil), fv.Bytes()...)
			}
			if f.Repr != "" {
				if isLowerHex(string(b), 2*f.W) {
					b, _ = hex.DecodeString(string(b))
				} else if len(b) == f.W {
					// the raw form: the octets themselves
				} else {
					b = append([]byte("!not-the-hex-form:"), b...)
				}
			}
			v.F[f.Spec] = b
		case "list":
			n := fv.Len()
			l := make([][]byte, n)
			for i := 0; i < n; i++ {
				l[i] = []byte(fv.Index(i).String())
			}
			v.F[f.Spec] = l
		case "tlv":
			v.F[f.Spec] = ExtractTLVs(fv)
		}
	}
	return v
}

// ExtractTLVs reads a smpp.TLVs / smgp.Options map (unexported tag/length/value are read, never written).
func ExtractTLVs(m reflect.Value) []TLV {
	var l []TLV
	if m.Kind() != reflect.Map {
		return nil
	}
	it := m.MapRange()
	for it.Next() {
		e := it.Value()
		tl := TLV{Tag: uint16(e.FieldByName("tag").Uint()), Len: uint16(e.FieldByName("length").Uint())}
		tl.Val = append([]byte(nil), e.FieldByName("value").Bytes()...)
		if uint64(tl.Tag) != it.Key().Uint() {
			tl.Val = append([]byte(fmt.Sprintf("!map-key-%d-differs-from-tag:", it.Key().Uint())), tl.Val...)
		}
		l = append(l, tl)
	}
	return l
}

// UncoveredFields returns exported struct fields of t's Go type that no table row covers
// (meta-check: the tables must describe the whole struct).
func UncoveredFields(t *Type) []string {
	rt := reflect.TypeOf(t.New()).Elem()
	covered := map[string]bool{"Header": true}
	for _, f := range t.Lib().Fields {
		covered[f.Go] = true
	}
	var out []string
	for i := 0; i < rt.NumField(); i++ {
		sf := rt.Field(i)
		if sf.PkgPath != "" {
			continue
		}
		if !covered[sf.Name] {
			out = append(out, sf.Name)
		}
	}
	return out
}
