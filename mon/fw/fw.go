// Package fw is the shared machinery of the runtime monitors: deterministic case
// lists, worker processes, violation signatures, evidence.
package fw

import (
	"encoding/json"
	"fmt"
	"os"
	"runtime"
	"sort"
	"strings"
	"time"
)

type Tier int

const (
	Quick Tier = iota
	Thorough
)

func (t Tier) String() string {
	if t == Thorough {
		return "thorough"
	}
	return "quick"
}

func ParseTier(s string) (Tier, error) {
	switch s {
	case "quick":
		return Quick, nil
	case "thorough":
		return Thorough, nil
	}
	return Quick, fmt.Errorf("unknown tier %q", s)
}

// Stage is one deterministic case list of a property.
type Stage struct {
	Name string
	// N is the number of cases at a tier (0 = stage not run at that tier).
	N func(t Tier) uint64
	// Run executes case c.Idx. It must be a pure function of (seed, stage, idx, tier).
	Run func(c *Case)
	// Exhaustive names the finite sub-space this stage enumerates completely ("" = sampled).
	Exhaustive string
	// Race stages are executed by the -race build and their race logs are parsed.
	Race bool
	// NoHandler: do not install the hook handler (configuration A of DESIGN 3.2).
	NoHandler bool
	// Procs overrides the number of worker processes (0 = default).
	Procs int
	// GoMaxProcs, if set, gives GOMAXPROCS for shard i.
	GoMaxProcs func(shard int) int
	// MinCover is the minimum number of distinct cover keys this stage must produce (else inconclusive).
	MinCover int
}

// Prop is one property's monitor.
type Prop struct {
	ID          string
	Technique   string
	Rule        string
	Assumptions []string
	Stages      []*Stage
	// Setup runs once per worker process before any case.
	Setup func(w *Worker)
	// Conclude inspects the merged result and returns reasons for an inconclusive verdict (nil = none).
	Conclude func(total *Result) []string
}

var registry = map[string]*Prop{}

func Register(p *Prop) {
	if _, dup := registry[p.ID]; dup {
		panic("duplicate property " + p.ID)
	}
	registry[p.ID] = p
}

func Lookup(id string) *Prop { return registry[id] }

func AllIDs() []string {
	ids := make([]string, 0, len(registry))
	for id := range registry {
		ids = append(ids, id)
	}
	sort.Strings(ids)
	return ids
}

func (p *Prop) stage(name string) *Stage {
	for _, s := range p.Stages {
		if s.Name == name {
			return s
		}
	}
	return nil
}

// Violation is one refuting observation, classified by signature.
type Violation struct {
	Sig    string `json:"sig"`
	Stage  string `json:"stage"`
	Idx    uint64 `json:"idx"`
	Detail string `json:"detail"`
	Count  uint64 `json:"count"`
	// Prelude: the cases this process ran just before (oldest first). Monitors that keep results across cases
	// (held results, echoes), and library state left behind by earlier calls, need them to reproduce the violation.
	Prelude []CaseRef `json:"prelude,omitempty"`
}

// Result is what a worker process reports.
type Result struct {
	Prop       string                `json:"prop"`
	Shard      int                   `json:"shard"`
	Cases      uint64                `json:"cases"`
	Evals      uint64                `json:"evals"`
	StageCases map[string]uint64     `json:"stage_cases"`
	StageEvals map[string]uint64     `json:"stage_evals"`
	Cover      map[string]uint64     `json:"cover"` // key -> hits
	Counters   map[string]uint64     `json:"counters"`
	Samples    []json.RawMessage     `json:"samples"`
	Violations map[string]*Violation `json:"violations"`
	HarnessErr string                `json:"harness_err,omitempty"`
	Done       bool                  `json:"done"`
}

func newResult(prop string, shard int) *Result {
	return &Result{Prop: prop, Shard: shard, StageCases: map[string]uint64{}, StageEvals: map[string]uint64{},
		Cover: map[string]uint64{}, Counters: map[string]uint64{}, Violations: map[string]*Violation{}}
}

// Worker is the per-process execution context.
type Worker struct {
	Prop    *Prop
	Tier    Tier
	Seed    uint64
	Shard   int
	NShards int
	Res     *Result
	Verbose bool
	Hooks   *Hooks // nil when the stage runs without handler
	prog    *progress
	samples map[string]int
	// State is free for the property (e.g. caches built in Setup).
	State any
	// recent: the last cases run in this process (stage name, idx), newest last
	recent []CaseRef
	// echoes registered by the previous case, re-evaluated after the current one
	echoes []echo
}

// CaseRef names one case of a property.
type CaseRef struct {
	Stage string `json:"stage"`
	Idx   uint64 `json:"idx"`
}

type echo struct {
	name  string
	stage string
	idx   uint64
	f     func() string
	was   string
}

// Case is one execution of a stage at one index.
type Case struct {
	W     *Worker
	Stage *Stage
	Idx   uint64
	R     *Rng
	Tier  Tier
	evals uint64

	newEchoes []echo
	nfail     int
}

// Failed reports whether this case has recorded a violation already (exhaustive inner loops stop there: on a broken
// tree every further call may cost seconds, and the case is decided).
func (c *Case) Failed() bool { return c.nfail > 0 }

// Evals adds n evaluations (library executions judged by an oracle) to the count.
func (c *Case) Evals(n uint64) { c.evals += n }

// Cover records a distinct-nontrivial coverage key.
func (c *Case) Cover(key string) { c.W.Res.Cover[key]++ }

// Count adds to a named counter shown in the evidence.
func (c *Case) Count(name string, n uint64) { c.W.Res.Counters[name] += n }

// Echo registers a question whose answer must not depend on what the library is asked next: f is evaluated now
// and again after the NEXT case of this worker has run; both answers must be equal. Typical f: call the library
// again with this case's input (a stale cache, a memo keyed on part of the request or state left by an error path
// changes the answer), or re-read a result this case still holds (memory handed out twice changes it).
// f must be deterministic and must not use c. At most four echoes per case are kept.
func (c *Case) Echo(name string, f func() string) {
	if len(c.newEchoes) >= 4 {
		return
	}
	var was string
	if p, val, st := Try(func() { was = f() }); p {
		c.Failf("echo-"+PanicSig(val, st)+"/"+name, "echo %s panicked at registration: %v\n%s", name, val, st)
		return
	}
	c.newEchoes = append(c.newEchoes, echo{name: name, stage: c.Stage.Name, idx: c.Idx, f: f, was: was})
}

// Failf records a violation under signature sig.
func (c *Case) Failf(sig string, format string, args ...any) {
	c.nfail++
	v := c.W.Res.Violations[sig]
	if v == nil {
		d := fmt.Sprintf(format, args...)
		if len(d) > 6000 {
			d = d[:6000] + "…(truncated)"
		}
		v = &Violation{Sig: sig, Stage: c.Stage.Name, Idx: c.Idx, Detail: d}
		v.Prelude = append([]CaseRef(nil), c.W.recent...)
		c.W.Res.Violations[sig] = v
		if c.W.Verbose {
			fmt.Printf("violation sig=%s stage=%s idx=%d\n  %s\n", sig, c.Stage.Name, c.Idx, d)
		}
	}
	v.Count++
}

// Sample keeps up to max samples per stage (written to the evidence).
func (c *Case) Sample(max int, v any) {
	if c.W.samples[c.Stage.Name] >= max {
		return
	}
	b, err := json.Marshal(map[string]any{"stage": c.Stage.Name, "idx": c.Idx, "case": v})
	if err != nil {
		return
	}
	c.W.samples[c.Stage.Name]++
	c.W.Res.Samples = append(c.W.Res.Samples, b)
}

func trunc(s string, n int) string {
	if len(s) > n {
		return s[:n] + "…"
	}
	return s
}

// Try runs f and reports a panic as an event instead of unwinding further.
// The stack is the panicking goroutine's stack at the point of recovery.
func Try(f func()) (panicked bool, val any, stack string) {
	defer func() {
		if r := recover(); r != nil {
			panicked, val = true, r
			buf := make([]byte, 16<<10)
			stack = string(buf[:runtime.Stack(buf, false)])
		}
	}()
	f()
	return
}

const repoPath = "github.com/hujm2023/go-sms-protocol"

// TopLibFrame returns the first function of the library (not verifhook) in a stack dump.
func TopLibFrame(stack string) string {
	for _, ln := range strings.Split(stack, "\n") {
		ln = strings.TrimSpace(ln)
		if strings.HasPrefix(ln, repoPath) && !strings.Contains(ln, "/verifhook.") {
			if i := strings.LastIndex(ln, "("); i > 0 {
				ln = ln[:i]
			}
			return strings.TrimPrefix(ln, repoPath)
		}
	}
	return ""
}

// PanicSig builds a signature fragment from a recovered panic: kind of panic plus top library frame.
func PanicSig(val any, stack string) string {
	if _, ok := val.(StepBudgetExceeded); ok {
		// name the loop's owner, not the reader primitive the budget happened to fire in
		for _, ln := range strings.Split(stack, "\n") {
			ln = strings.TrimSpace(ln)
			if strings.HasPrefix(ln, repoPath) && !strings.Contains(ln, "/verifhook.") && !strings.Contains(ln, "/packet.(*Reader)") {
				if i := strings.LastIndex(ln, "("); i > 0 {
					ln = ln[:i]
				}
				return "steps@" + strings.TrimPrefix(ln, repoPath)
			}
		}
		return "steps@" + TopLibFrame(stack)
	}
	return "panic@" + TopLibFrame(stack)
}

func (w *Worker) runCase(st *Stage, idx uint64) {
	c := &Case{W: w, Stage: st, Idx: idx, Tier: w.Tier, R: NewRng(w.Seed, HashStr(w.Prop.ID), HashStr(st.Name), idx)}
	w.prog.set(st.Name, idx)
	if w.Hooks != nil {
		w.Hooks.ResetCase(c.R.U64())
	}
	panicked, val, stack := Try(func() { st.Run(c) })
	if panicked {
		if TopLibFrame(stack) != "" && !strings.Contains(fmt.Sprint(val), "verifmon harness") {
			// a library panic the property did not wrap itself: still an observation about the library
			c.Failf("escaped-"+PanicSig(val, stack), "panic %v\n%s", val, stack)
		} else {
			w.Res.HarnessErr = fmt.Sprintf("harness panic in %s[%d]: %v\n%s", st.Name, idx, val, stack)
		}
	}
	if w.Hooks != nil {
		// every property: a pooled object released twice, or handed out while still held, is a defect wherever it happens
		if errs := w.Hooks.TakeOwnErrs(); len(errs) > 0 {
			kind := errs[0]
			if i := strings.IndexByte(kind, ' '); i > 0 {
				kind = kind[:i]
			}
			c.Failf("pool-ownership/"+kind, "the pool-ownership monitor saw %d violation(s) during this case: %v", len(errs), errs)
		}
	}
	// echoes of the previous case: the same questions, asked again now that another case has run in between
	for _, e := range w.echoes {
		var now string
		if p, val, stk := Try(func() { now = e.f() }); p {
			c.Failf("echo-"+PanicSig(val, stk)+"/"+e.name, "echo %s of %s[%d] panicked when asked again after %s[%d]: %v\n%s", e.name, e.stage, e.idx, st.Name, idx, val, stk)
		} else if now != e.was {
			c.Failf("answer-changed-after-later-calls/"+e.name, "%s of %s[%d] answered\n  %s\nwhen first asked and\n  %s\nafter %s[%d] had run in between", e.name, e.stage, e.idx, trunc(e.was, 1500), trunc(now, 1500), st.Name, idx)
		}
		c.evals++
		w.Res.Counters["echoes_asked_again"]++
	}
	w.echoes = c.newEchoes
	w.recent = append(w.recent, CaseRef{st.Name, idx})
	if len(w.recent) > 3 {
		w.recent = w.recent[len(w.recent)-3:]
	}
	if c.evals == 0 {
		c.evals = 1
	}
	w.Res.Cases++
	w.Res.Evals += c.evals
	w.Res.StageCases[st.Name]++
	w.Res.StageEvals[st.Name] += c.evals
}

// RunWorker executes the shard's cases of the selected stages and writes the result file.
func RunWorker(o WorkerOpts) int {
	p := Lookup(o.Prop)
	if p == nil {
		fmt.Fprintln(os.Stderr, "unknown property", o.Prop)
		return 3
	}
	w := &Worker{Prop: p, Tier: o.Tier, Seed: o.Seed, Shard: o.Shard, NShards: o.NShards, Verbose: o.Verbose,
		Res: newResult(p.ID, o.Shard), samples: map[string]int{}}
	w.prog = openProgress(o.Progress)
	defer w.prog.close()
	limitAddressSpace()
	openKnown := map[string]bool{}
	for _, k := range loadKnown(os.Getenv("VERIF_DIR")) {
		if k.Property == p.ID && k.Status == "open" {
			openKnown[k.Signature] = true
		}
	}
	if p.Setup != nil {
		p.Setup(w)
	}
	flush := func() {
		if o.Out == "" {
			return
		}
		b, _ := json.Marshal(w.Res)
		tmp := o.Out + ".tmp"
		if err := os.WriteFile(tmp, b, 0o644); err == nil {
			_ = os.Rename(tmp, o.Out)
		}
	}
	for _, st := range p.Stages {
		if o.Stage != "" && st.Name != o.Stage {
			continue
		}
		if o.Stage == "" && (st.Race != o.RaceStages) {
			continue
		}
		n := st.N(o.Tier)
		if n == 0 {
			continue
		}
		if st.NoHandler {
			w.Hooks = nil
			InstallHooks(nil)
		} else {
			w.Hooks = NewHooks()
			InstallHooks(w.Hooks)
		}
		if o.Only {
			w.runCase(st, o.Idx)
			continue
		}
		ran := 0
		stageStart := time.Now()
		for idx := uint64(o.Shard); idx < n; idx += uint64(o.NShards) {
			if o.Skip[fmt.Sprintf("%s:%d", st.Name, idx)] {
				w.Res.Counters["skipped_after_fatal"]++
				continue
			}
			w.runCase(st, idx)
			if w.Res.HarnessErr != "" {
				break
			}
			// a tree that violates the property in this stage thousands of times has been decided; on some broken trees
			// every further case costs seconds (gigabyte allocations from a desynchronised stream). Recorded findings
			// (known_findings.json, status open) do not count: they occur on the unchanged tree.
			if ran++; ran%32 == 0 || time.Since(stageStart) > 90*time.Second {
				var nv uint64
				for sig, v := range w.Res.Violations {
					if v.Stage == st.Name && !openKnown[sig] {
						nv += v.Count
					}
				}
				// (wall clock is used here only to stop exploring a tree that is already known to violate)
				if nv >= 3000 || (nv >= 20 && time.Since(stageStart) > 90*time.Second) {
					w.Res.Counters["stages_abandoned_after_violations"]++
					break
				}
			}
		}
		if w.Hooks != nil {
			t, y, a, r, po := w.Hooks.Totals()
			w.Res.Counters["hook_events/tick"] += t
			w.Res.Counters["hook_events/yield"] += y
			w.Res.Counters["hook_events/acquire"] += a
			w.Res.Counters["hook_events/release"] += r
			w.Res.Counters["hook_events/poison"] += po
		}
		flush()
		if w.Res.HarnessErr != "" {
			break
		}
	}
	InstallHooks(nil)
	w.Res.Done = true
	flush()
	if w.Res.HarnessErr != "" {
		fmt.Fprintln(os.Stderr, w.Res.HarnessErr)
		return 2
	}
	if o.Only || o.Verbose {
		for _, v := range w.Res.Violations {
			fmt.Printf("VIOLATION-DETAIL sig=%s stage=%s idx=%d count=%d\n%s\n", v.Sig, v.Stage, v.Idx, v.Count, v.Detail)
		}
	}
	return 0
}

type WorkerOpts struct {
	Prop       string
	Tier       Tier
	Seed       uint64
	Shard      int
	NShards    int
	Out        string
	Progress   string
	Stage      string
	Only       bool
	Idx        uint64
	Skip       map[string]bool
	Verbose    bool
	RaceStages bool
}

// ReplayCase re-executes one case in this process and reports whether the signature reproduces.
func ReplayCase(prop string, tier Tier, seed uint64, stage string, idx uint64, sig string, prelude ...CaseRef) int {
	p := Lookup(prop)
	if p == nil || p.stage(stage) == nil {
		fmt.Fprintln(os.Stderr, "unknown property/stage", prop, stage)
		return 3
	}
	st := p.stage(stage)
	w := &Worker{Prop: p, Tier: tier, Seed: seed, NShards: 1, Verbose: true, Res: newResult(p.ID, 0), samples: map[string]int{}, prog: &progress{}}
	if p.Setup != nil {
		p.Setup(w)
	}
	if !st.NoHandler {
		w.Hooks = NewHooks()
		InstallHooks(w.Hooks)
	}
	for _, pc := range prelude {
		// the cases that ran before it in the same process: monitors keep results across cases
		if ps := p.stage(pc.Stage); ps != nil && ps.NoHandler == st.NoHandler {
			w.runCase(ps, pc.Idx)
		}
	}
	if len(prelude) > 0 {
		w.Res.Violations = map[string]*Violation{}
	}
	w.runCase(st, idx)
	if w.Res.HarnessErr != "" {
		fmt.Println(w.Res.HarnessErr)
		return 2
	}
	if len(w.Res.Violations) == 0 {
		fmt.Printf("replay %s %s[%d] seed=%d: no violation observed\n", prop, stage, idx, seed)
		return 0
	}
	for s := range w.Res.Violations {
		fmt.Printf("VIOLATION property=%s replay-reproduced signature=%s\n", prop, s)
	}
	_ = sig
	return 1
}
