package fw

import (
	"fmt"
	"runtime"
	"sync"
	"sync/atomic"
	"time"

	"github.com/hujm2023/go-sms-protocol/verifhook"
)

// StepBudgetExceeded is the panic value raised from a Tick when the logical step budget
// of the current call is exhausted: it unwinds out of the spinning library loop and is
// classified by the monitors as "did not terminate within the step bound".
type StepBudgetExceeded struct {
	Site  string
	Steps uint64
}

func (e StepBudgetExceeded) Error() string {
	return fmt.Sprintf("step budget exceeded at %s after %d steps", e.Site, e.Steps)
}

// Hooks is the handler installed into the library's verifhook package.
type Hooks struct {
	steps  uint64 // atomic: ticks since SetBudget
	budget uint64 // atomic: 0 = unlimited

	ticks, yields, acquires, releases, poisons uint64 // atomic totals

	PoisonOn  bool
	TrackOwn  bool
	YieldMode int32 // 0 off, 1 gosched/sleep perturbation

	mu      sync.Mutex
	owners  map[any]string
	OwnErrs []string
	yrng    uint64
	fp      uint64 // interleaving fingerprint
	gids    map[uint64]int
	nyield  int
	sites   map[string]uint64
}

func NewHooks() *Hooks {
	return &Hooks{PoisonOn: true, TrackOwn: true, owners: map[any]string{}, gids: map[uint64]int{}, sites: map[string]uint64{}}
}

func InstallHooks(h *Hooks) {
	if h == nil {
		verifhook.Set(nil)
		return
	}
	verifhook.Set(h)
}

// ResetCase forgets per-case state (ownership of leaked objects, fingerprint, budget).
func (h *Hooks) ResetCase(seed uint64) {
	h.mu.Lock()
	if len(h.owners) > 0 {
		h.owners = map[any]string{}
	}
	h.OwnErrs = nil
	h.yrng = seed
	h.fp = 0
	h.nyield = 0
	if len(h.gids) > 0 {
		h.gids = map[uint64]int{}
	}
	h.mu.Unlock()
	atomic.StoreUint64(&h.budget, 0)
	atomic.StoreUint64(&h.steps, 0)
}

// SetBudget arms the step budget for the following library call(s).
func (h *Hooks) SetBudget(n uint64) {
	atomic.StoreUint64(&h.steps, 0)
	atomic.StoreUint64(&h.budget, n)
}

func (h *Hooks) Steps() uint64 { return atomic.LoadUint64(&h.steps) }

func (h *Hooks) Totals() (ticks, yields, acquires, releases, poisons uint64) {
	return atomic.LoadUint64(&h.ticks), atomic.LoadUint64(&h.yields), atomic.LoadUint64(&h.acquires),
		atomic.LoadUint64(&h.releases), atomic.LoadUint64(&h.poisons)
}

// Fingerprint is the hash of the (goroutine, site) order observed at Yield points since ResetCase.
func (h *Hooks) Fingerprint() (fp uint64, yields int) {
	h.mu.Lock()
	defer h.mu.Unlock()
	return h.fp, h.nyield
}

// TakeOwnErrs returns and clears the ownership violations seen so far.
func (h *Hooks) TakeOwnErrs() []string {
	h.mu.Lock()
	defer h.mu.Unlock()
	e := h.OwnErrs
	h.OwnErrs = nil
	return e
}

// Held is the number of pooled objects currently held (acquired, not yet released).
func (h *Hooks) Held() int {
	h.mu.Lock()
	defer h.mu.Unlock()
	return len(h.owners)
}

func (h *Hooks) Tick(site string) {
	atomic.AddUint64(&h.ticks, 1)
	n := atomic.AddUint64(&h.steps, 1)
	if b := atomic.LoadUint64(&h.budget); b != 0 && n > b {
		atomic.StoreUint64(&h.budget, 0) // fire once
		panic(StepBudgetExceeded{Site: site, Steps: n})
	}
}

func goid() uint64 {
	var buf [40]byte
	n := runtime.Stack(buf[:], false)
	// "goroutine 123 ["
	var id uint64
	for i := len("goroutine "); i < n; i++ {
		c := buf[i]
		if c < '0' || c > '9' {
			break
		}
		id = id*10 + uint64(c-'0')
	}
	return id
}

func (h *Hooks) Yield(site string) {
	atomic.AddUint64(&h.yields, 1)
	if atomic.LoadInt32(&h.YieldMode) == 0 {
		return
	}
	g := goid()
	h.mu.Lock()
	gi, ok := h.gids[g]
	if !ok {
		gi = len(h.gids)
		h.gids[g] = gi
	}
	h.fp = mix(h.fp ^ mix(uint64(gi)<<32^HashStr(site)))
	h.nyield++
	h.yrng += 0x9e3779b97f4a7c15
	r := mix(h.yrng)
	h.mu.Unlock()
	switch {
	case r%16 == 0:
		time.Sleep(time.Duration(1+r>>8%40) * time.Microsecond)
	case r%4 == 1:
		runtime.Gosched()
	}
}

func (h *Hooks) Acquire(kind string, obj any) {
	atomic.AddUint64(&h.acquires, 1)
	if !h.TrackOwn {
		return
	}
	h.mu.Lock()
	if k, held := h.owners[obj]; held {
		h.OwnErrs = append(h.OwnErrs, fmt.Sprintf("acquire-while-held kind=%s (held as %s) obj=%p", kind, k, obj))
	}
	h.owners[obj] = kind
	h.mu.Unlock()
}

func (h *Hooks) Release(kind string, obj any) {
	atomic.AddUint64(&h.releases, 1)
	if !h.TrackOwn {
		return
	}
	h.mu.Lock()
	if _, held := h.owners[obj]; !held {
		h.OwnErrs = append(h.OwnErrs, fmt.Sprintf("release-not-held kind=%s obj=%p (double release or release of a foreign object)", kind, obj))
	}
	delete(h.owners, obj)
	h.mu.Unlock()
}

func (h *Hooks) Poison(b []byte) {
	atomic.AddUint64(&h.poisons, 1)
	if !h.PoisonOn {
		return
	}
	for i := range b {
		b[i] = 0xA5
	}
}
