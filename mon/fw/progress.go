package fw

import (
	"encoding/binary"
	"os"
	"syscall"
)

// progress is a 4 KiB shared file mapping holding (stage name, case index) of the case
// about to run. It is written without a syscall and survives a fatal runtime error of
// the worker, so the driver can attribute a dead worker to the case it was executing.
type progress struct {
	f   *os.File
	mem []byte
}

func openProgress(path string) *progress {
	if path == "" {
		return &progress{}
	}
	f, err := os.OpenFile(path, os.O_RDWR|os.O_CREATE|os.O_TRUNC, 0o644)
	if err != nil {
		return &progress{}
	}
	if err := f.Truncate(4096); err != nil {
		f.Close()
		return &progress{}
	}
	mem, err := syscall.Mmap(int(f.Fd()), 0, 4096, syscall.PROT_READ|syscall.PROT_WRITE, syscall.MAP_SHARED)
	if err != nil {
		f.Close()
		return &progress{}
	}
	return &progress{f: f, mem: mem}
}

func (p *progress) set(stage string, idx uint64) {
	if p.mem == nil {
		return
	}
	binary.LittleEndian.PutUint64(p.mem[0:8], idx)
	n := copy(p.mem[16:256], stage)
	binary.LittleEndian.PutUint64(p.mem[8:16], uint64(n)+1) // +1: "valid"
}

func (p *progress) close() {
	if p.mem != nil {
		_ = syscall.Munmap(p.mem)
		p.f.Close()
	}
}

// readProgress returns the last case a worker started.
func readProgress(path string) (stage string, idx uint64, ok bool) {
	b, err := os.ReadFile(path)
	if err != nil || len(b) < 256 {
		return "", 0, false
	}
	n := binary.LittleEndian.Uint64(b[8:16])
	if n == 0 || n > 241 {
		return "", 0, false
	}
	return string(b[16 : 16+n-1]), binary.LittleEndian.Uint64(b[0:8]), true
}
