package fw

// Rng is a small deterministic PRNG (splitmix64 seeding an xorshift-style stream).
// It never touches math/rand's global source or the clock: a case is a pure function
// of (VERIF_SEED, stage name, case index).
type Rng struct{ s uint64 }

func mix(x uint64) uint64 {
	x += 0x9e3779b97f4a7c15
	x = (x ^ (x >> 30)) * 0xbf58476d1ce4e5b9
	x = (x ^ (x >> 27)) * 0x94d049bb133111eb
	return x ^ (x >> 31)
}

// HashStr is FNV-1a over s, mixed.
func HashStr(s string) uint64 {
	h := uint64(14695981039346656037)
	for i := 0; i < len(s); i++ {
		h ^= uint64(s[i])
		h *= 1099511628211
	}
	return mix(h)
}

// HashBytes is FNV-1a over b, mixed.
func HashBytes(b []byte) uint64 {
	h := uint64(14695981039346656037)
	for i := 0; i < len(b); i++ {
		h ^= uint64(b[i])
		h *= 1099511628211
	}
	return mix(h)
}

func NewRng(parts ...uint64) *Rng {
	s := uint64(0x243f6a8885a308d3)
	for _, p := range parts {
		s = mix(s ^ mix(p))
	}
	return &Rng{s: s}
}

func (r *Rng) U64() uint64 {
	r.s += 0x9e3779b97f4a7c15
	x := r.s
	x = (x ^ (x >> 30)) * 0xbf58476d1ce4e5b9
	x = (x ^ (x >> 27)) * 0x94d049bb133111eb
	return x ^ (x >> 31)
}

func (r *Rng) U32() uint32 { return uint32(r.U64() >> 32) }

// Intn returns a value in [0,n). n must be > 0.
func (r *Rng) Intn(n int) int {
	if n <= 0 {
		return 0
	}
	return int(r.U64() % uint64(n))
}

// Range returns a value in [lo,hi].
func (r *Rng) Range(lo, hi int) int {
	if hi <= lo {
		return lo
	}
	return lo + r.Intn(hi-lo+1)
}

func (r *Rng) Bool() bool { return r.U64()&1 == 1 }

// Chance is true with probability num/den.
func (r *Rng) Chance(num, den int) bool { return r.Intn(den) < num }

func (r *Rng) Bytes(n int) []byte {
	b := make([]byte, n)
	for i := 0; i < n; {
		v := r.U64()
		for k := 0; k < 8 && i < n; k++ {
			b[i] = byte(v)
			v >>= 8
			i++
		}
	}
	return b
}

// Pick returns one of the given ints.
func (r *Rng) Pick(xs ...int) int { return xs[r.Intn(len(xs))] }

// Perm returns a permutation of 0..n-1.
func (r *Rng) Perm(n int) []int {
	p := make([]int, n)
	for i := range p {
		p[i] = i
	}
	for i := n - 1; i > 0; i-- {
		j := r.Intn(i + 1)
		p[i], p[j] = p[j], p[i]
	}
	return p
}
