package fw

import (
	"os"
	"syscall"
)

// limitAddressSpace caps the worker's address space (default 24 GiB) so that a library defect that
// allocates gigabytes per call ends this worker with a runtime "out of memory" (which the driver
// attributes to the case and reports) instead of exhausting the machine. Not applied under the
// race detector, whose shadow memory needs terabytes of address space.
func limitAddressSpace() {
	if raceEnabled || os.Getenv("VERIF_NO_RLIMIT") != "" {
		return
	}
	const lim = 24 << 30
	var r syscall.Rlimit
	if syscall.Getrlimit(syscall.RLIMIT_AS, &r) == nil && r.Cur > lim {
		r.Cur = lim
		_ = syscall.Setrlimit(syscall.RLIMIT_AS, &r)
	}
}
