//go:build race

package fw

const raceEnabled = true
