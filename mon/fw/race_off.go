//go:build !race

package fw

const raceEnabled = false
