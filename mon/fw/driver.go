package fw

import (
	"bytes"
	"encoding/json"
	"fmt"
	"os"
	"os/exec"
	"path/filepath"
	"regexp"
	"runtime"
	"sort"
	"strconv"
	"strings"
	"sync"
	"time"
)

// DriverOpts configures one check run (one property, one tier).
type DriverOpts struct {
	Prop     string
	Tier     Tier
	Seed     uint64
	VerifDir string // /verif
	Bin      string // plain verif build
	RaceBin  string // -race verif build
	Procs    int
}

type KnownFinding struct {
	Property  string `json:"property"`
	Signature string `json:"signature"`
	Status    string `json:"status"` // open | fixed
	Commit    string `json:"commit,omitempty"`
	What      string `json:"what"`
	Witness   string `json:"witness,omitempty"`
}

type knownFile struct {
	Findings []KnownFinding `json:"findings"`
}

func loadKnown(dir string) []KnownFinding {
	b, err := os.ReadFile(filepath.Join(dir, "known_findings.json"))
	if err != nil {
		return nil
	}
	var k knownFile
	if err := json.Unmarshal(b, &k); err != nil {
		fmt.Fprintln(os.Stderr, "known_findings.json unreadable:", err)
		return nil
	}
	return k.Findings
}

type shardRun struct {
	shard   int
	race    bool
	res     *Result
	dead    []string // cases that killed a worker
	inconcl string
	raceLog string
}

func watchdog(t Tier) time.Duration {
	if t == Thorough {
		return 5 * time.Hour
	}
	return 40 * time.Minute
}

// runShard runs one worker process to completion, restarting it (skipping the fatal case)
// when it dies from a runtime-fatal condition.
func runShard(o DriverOpts, p *Prop, work string, shard, nshards int, race bool, gomaxprocs int) *shardRun {
	sr := &shardRun{shard: shard, race: race}
	tag := fmt.Sprintf("%s.%d", map[bool]string{false: "w", true: "r"}[race], shard)
	out := filepath.Join(work, tag+".json")
	prog := filepath.Join(work, tag+".progress")
	logf := filepath.Join(work, tag+".log")
	skip := []string{}
	bin := o.Bin
	if race {
		bin = o.RaceBin
		sr.raceLog = filepath.Join(work, tag+".race")
	}
	const maxDeaths = 5
	for attempt := 0; attempt < maxDeaths; attempt++ {
		_ = os.Remove(out)
		args := []string{"worker", "--prop", p.ID, "--tier", o.Tier.String(), "--seed", strconv.FormatUint(o.Seed, 10),
			"--shard", strconv.Itoa(shard), "--nshards", strconv.Itoa(nshards), "--out", out, "--progress", prog}
		if race {
			args = append(args, "--race-stages")
		}
		if len(skip) > 0 {
			args = append(args, "--skip", strings.Join(skip, ","))
		}
		cmd := exec.Command(bin, args...)
		lf, _ := os.OpenFile(logf, os.O_CREATE|os.O_WRONLY|os.O_APPEND, 0o644)
		cmd.Stdout, cmd.Stderr = lf, lf
		env := os.Environ()
		gmp := 2
		if gomaxprocs > 0 {
			gmp = gomaxprocs
		}
		env = append(env, "GOMAXPROCS="+strconv.Itoa(gmp), "GOTRACEBACK=all", "VERIF_DIR="+o.VerifDir)
		if race {
			env = append(env, "GORACE=halt_on_error=0 log_path="+sr.raceLog+" history_size=3")
		}
		cmd.Env = env
		if err := cmd.Start(); err != nil {
			sr.inconcl = "cannot start worker: " + err.Error()
			lf.Close()
			return sr
		}
		done := make(chan error, 1)
		go func() { done <- cmd.Wait() }()
		var werr error
		timedOut := false
		select {
		case werr = <-done:
		case <-time.After(watchdog(o.Tier)):
			timedOut = true
			_ = cmd.Process.Signal(os.Interrupt)
			time.Sleep(200 * time.Millisecond)
			_ = cmd.Process.Kill()
			werr = <-done
		}
		lf.Close()
		if b, err := os.ReadFile(out); err == nil {
			var r Result
			if json.Unmarshal(b, &r) == nil {
				sr.res = &r
			}
		}
		if timedOut {
			st, idx, _ := readProgress(prog)
			sr.inconcl = fmt.Sprintf("watchdog (%s) fired in shard %d at %s[%d]", watchdog(o.Tier), shard, st, idx)
			return sr
		}
		if sr.res != nil && sr.res.Done && (werr == nil || race) {
			// a -race worker that saw races exits with status 66 after finishing; the reports are in its log
			return sr
		}
		if sr.res != nil && sr.res.HarnessErr != "" {
			sr.inconcl = "harness error: " + firstLine(sr.res.HarnessErr)
			return sr
		}
		// died: attribute to the last started case
		st, idx, ok := readProgress(prog)
		if !ok {
			sr.inconcl = fmt.Sprintf("worker shard %d died before its first case (%v); see %s", shard, werr, logf)
			return sr
		}
		key := fmt.Sprintf("%s:%d", st, idx)
		sr.dead = append(sr.dead, key)
		skip = append(skip, key)
		sr.res = nil
	}
	sr.inconcl = fmt.Sprintf("worker shard %d died more than %d times", shard, maxDeaths)
	return sr
}

func firstLine(s string) string {
	if i := strings.IndexByte(s, '\n'); i >= 0 {
		return s[:i]
	}
	return s
}

// soloRerun runs one case alone in a fresh process and reports whether the process dies again.
func soloRerun(o DriverOpts, p *Prop, work, key string, race bool) (died bool, output string) {
	i := strings.LastIndexByte(key, ':')
	bin := o.Bin
	if race {
		bin = o.RaceBin
	}
	cmd := exec.Command(bin, "worker", "--prop", p.ID, "--tier", o.Tier.String(), "--seed", strconv.FormatUint(o.Seed, 10),
		"--stage", key[:i], "--only", key[i+1:])
	cmd.Env = append(os.Environ(), "GOMAXPROCS=2", "GOTRACEBACK=all")
	var buf bytes.Buffer
	cmd.Stdout, cmd.Stderr = &buf, &buf
	done := make(chan error, 1)
	if err := cmd.Start(); err != nil {
		return false, err.Error()
	}
	go func() { done <- cmd.Wait() }()
	select {
	case err := <-done:
		s := buf.String()
		if len(s) > 8000 {
			s = s[:8000]
		}
		return err != nil, s
	case <-time.After(10 * time.Minute):
		_ = cmd.Process.Kill()
		<-done
		return false, "solo re-run timed out (inconclusive)"
	}
}

var (
	reRaceFrame = regexp.MustCompile(`^\s+([A-Za-z0-9_./\-]+(?:\.\(\*?[A-Za-z0-9_]+\))?\.[A-Za-z0-9_.\-]+(?:\[\.\.\.\])?)\(`)
)

// parseRaceLogs reads GORACE log files and returns deduplicated reports keyed by the pair of
// innermost library frames of the two conflicting accesses (addresses and line numbers stripped).
func parseRaceLogs(glob string) (reports map[string]string, total int) {
	reports = map[string]string{}
	files, _ := filepath.Glob(glob + "*")
	for _, f := range files {
		b, err := os.ReadFile(f)
		if err != nil {
			continue
		}
		blocks := strings.Split(string(b), "==================")
		for _, blk := range blocks {
			if !strings.Contains(blk, "WARNING: DATA RACE") {
				continue
			}
			total++
			// sections: the two accesses come first ("Write at"/"Read at"/"Previous write at"/"Previous read at")
			var accesses [][]string
			var cur []string
			inAccess := false
			for _, ln := range strings.Split(blk, "\n") {
				t := strings.TrimSpace(ln)
				switch {
				case strings.HasPrefix(t, "Write at") || strings.HasPrefix(t, "Read at") || strings.HasPrefix(t, "Previous write at") || strings.HasPrefix(t, "Previous read at") || strings.HasPrefix(t, "Atomic") || strings.HasPrefix(t, "Previous atomic"):
					if inAccess {
						accesses = append(accesses, cur)
					}
					cur, inAccess = nil, true
				case strings.HasPrefix(t, "Goroutine ") || strings.HasPrefix(t, "[failed"):
					if inAccess {
						accesses = append(accesses, cur)
					}
					cur, inAccess = nil, false
				default:
					if inAccess {
						if m := reRaceFrame.FindStringSubmatch(ln); m != nil {
							cur = append(cur, m[1])
						}
					}
				}
			}
			if inAccess {
				accesses = append(accesses, cur)
			}
			var fr []string
			for _, a := range accesses {
				top := "?"
				for _, fn := range a {
					if strings.HasPrefix(fn, repoPath) || strings.Contains(fn, "valyala/bytebufferpool") {
						top = strings.TrimPrefix(fn, repoPath)
						break
					}
				}
				if top == "?" && len(a) > 0 {
					top = a[0]
				}
				fr = append(fr, top)
			}
			sort.Strings(fr)
			key := strings.Join(fr, "|")
			lib := false
			for _, a := range accesses {
				for _, fn := range a {
					if (strings.HasPrefix(fn, repoPath) && !strings.Contains(fn, "/verifhook.")) || strings.Contains(fn, "valyala/bytebufferpool") {
						lib = true
					}
				}
			}
			if !lib {
				key = "HARNESS:" + key
			}
			if _, ok := reports[key]; !ok {
				if len(blk) > 5000 {
					blk = blk[:5000]
				}
				reports[key] = blk
			}
		}
	}
	return reports, total
}

// RunDriver executes one check and returns the process exit code.
func RunDriver(o DriverOpts) int {
	p := Lookup(o.Prop)
	if p == nil {
		fmt.Fprintln(os.Stderr, "unknown property", o.Prop)
		return 3
	}
	t0 := time.Now()
	outDir := o.VerifDir
	if d := os.Getenv("VERIF_OUT_DIR"); d != "" {
		outDir = d // self-test runs keep their evidence, replays and scratch files out of /verif
	}
	work := filepath.Join(outDir, "work", fmt.Sprintf("%s-%s-%d", p.ID, o.Tier, os.Getpid()))
	_ = os.RemoveAll(work)
	if err := os.MkdirAll(work, 0o755); err != nil {
		fmt.Fprintln(os.Stderr, err)
		return 3
	}
	defer os.RemoveAll(work)
	_ = os.MkdirAll(filepath.Join(outDir, "replays"), 0o755)
	_ = os.MkdirAll(filepath.Join(outDir, "evidence"), 0o755)

	procs := o.Procs
	if procs <= 0 {
		procs = runtime.NumCPU()
		if procs > 16 {
			procs = 16
		}
	}
	hasPlain, hasRace := false, false
	raceProcs, plainProcs := procs, procs
	var raceGMP func(int) int
	for _, st := range p.Stages {
		if st.N(o.Tier) == 0 {
			continue
		}
		if st.Race {
			hasRace = true
			if st.Procs > 0 {
				raceProcs = st.Procs
			}
			if st.GoMaxProcs != nil {
				raceGMP = st.GoMaxProcs
			}
		} else {
			hasPlain = true
			if st.Procs > 0 && st.Procs < plainProcs {
				plainProcs = st.Procs
			}
		}
	}
	var runs []*shardRun
	var mu sync.Mutex
	var wg sync.WaitGroup
	launch := func(n int, race bool, gmp func(int) int) {
		sem := make(chan struct{}, procs)
		for i := 0; i < n; i++ {
			wg.Add(1)
			go func(i int) {
				defer wg.Done()
				sem <- struct{}{}
				defer func() { <-sem }()
				g := 0
				if gmp != nil {
					g = gmp(i)
				}
				sr := runShard(o, p, work, i, n, race, g)
				mu.Lock()
				runs = append(runs, sr)
				mu.Unlock()
			}(i)
		}
		wg.Wait()
	}
	if hasPlain {
		launch(plainProcs, false, nil)
	}
	if hasRace {
		launch(raceProcs, true, raceGMP)
	}

	// merge
	total := newResult(p.ID, -1)
	var inconclusive []string
	confirmedFatal := map[string]int{}
	for _, sr := range runs {
		if sr.inconcl != "" {
			inconclusive = append(inconclusive, sr.inconcl)
		}
		for _, key := range sr.dead {
			i := strings.LastIndexByte(key, ':')
			if confirmedFatal[key[:i]] >= 2 {
				// this stage already has two cases that kill a fresh process on their own: the tree is decided, and
				// every further solo run may cost minutes (gigabyte allocations)
				total.Counters["dead_cases_not_rerun_alone"]++
				continue
			}
			died, outp := soloRerun(o, p, work, key, sr.race)
			if died {
				confirmedFatal[key[:i]]++
			}
			idx, _ := strconv.ParseUint(key[i+1:], 10, 64)
			if died {
				sig := "fatal:" + key[:i] + ":" + fatalKind(outp)
				if v := total.Violations[sig]; v == nil {
					total.Violations[sig] = &Violation{Sig: sig, Stage: key[:i], Idx: idx, Detail: "worker process died (runtime-fatal) on this case, twice, the second time alone in a fresh process:\n" + outp, Count: 1}
				} else {
					v.Count++
				}
			} else {
				inconclusive = append(inconclusive, fmt.Sprintf("worker died at %s but the case passes alone", key))
			}
		}
		if sr.res == nil {
			continue
		}
		r := sr.res
		total.Cases += r.Cases
		total.Evals += r.Evals
		for k, v := range r.StageCases {
			total.StageCases[k] += v
		}
		for k, v := range r.StageEvals {
			total.StageEvals[k] += v
		}
		for k, v := range r.Cover {
			total.Cover[k] += v
		}
		for k, v := range r.Counters {
			total.Counters[k] += v
		}
		if len(total.Samples) < 12 {
			for _, s := range r.Samples {
				if len(total.Samples) < 12 {
					total.Samples = append(total.Samples, s)
				}
			}
		}
		for sig, v := range r.Violations {
			if t := total.Violations[sig]; t == nil {
				cp := *v
				total.Violations[sig] = &cp
			} else {
				t.Count += v.Count
				if v.Stage == t.Stage && v.Idx < t.Idx {
					t.Idx, t.Detail, t.Prelude = v.Idx, v.Detail, v.Prelude
				}
			}
		}
		if sr.race {
			reps, n := parseRaceLogs(sr.raceLog)
			total.Counters["race_reports_raw"] += uint64(n)
			for key, blk := range reps {
				if strings.HasPrefix(key, "HARNESS:") {
					inconclusive = append(inconclusive, "race inside the harness itself (no library frame): "+key)
					continue
				}
				sig := "race:" + key
				if t := total.Violations[sig]; t == nil {
					total.Violations[sig] = &Violation{Sig: sig, Stage: "race-detector", Idx: uint64(sr.shard), Detail: blk, Count: 1}
				} else {
					t.Count++
				}
			}
		}
	}
	// expected case counts
	var exhaustive []string
	for _, st := range p.Stages {
		n := st.N(o.Tier)
		if n == 0 {
			continue
		}
		got := total.StageCases[st.Name] + total.Counters["skipped_after_fatal"]
		if got < n {
			inconclusive = append(inconclusive, fmt.Sprintf("stage %s ran %d of %d cases", st.Name, total.StageCases[st.Name], n))
		}
		if st.Exhaustive != "" {
			exhaustive = append(exhaustive, st.Name+": "+st.Exhaustive)
		}
		if st.MinCover > 0 {
			c := 0
			for k := range total.Cover {
				if strings.HasPrefix(k, st.Name+"/") {
					c++
				}
			}
			if c < st.MinCover {
				inconclusive = append(inconclusive, fmt.Sprintf("stage %s produced %d distinct cover keys, fewer than the floor %d", st.Name, c, st.MinCover))
			}
		}
	}

	if p.Conclude != nil {
		inconclusive = append(inconclusive, p.Conclude(total)...)
	}

	// classify
	known := loadKnown(o.VerifDir)
	open := map[string]KnownFinding{}
	for _, k := range known {
		if k.Property == p.ID && k.Status == "open" {
			open[k.Signature] = k
		}
	}
	sigs := make([]string, 0, len(total.Violations))
	for s := range total.Violations {
		sigs = append(sigs, s)
	}
	sort.Strings(sigs)
	nviol := 0
	knownHit := map[string]uint64{}
	for _, s := range sigs {
		v := total.Violations[s]
		if k, ok := open[s]; ok {
			fmt.Printf("KNOWN-FINDING: property=%s %s — %s (observed %d times; first at %s[%d])\n", p.ID, s, k.What, v.Count, v.Stage, v.Idx)
			knownHit[s] = v.Count
			continue
		}
		nviol++
		rp := filepath.Join(outDir, "replays", fmt.Sprintf("%s-%016x.json", p.ID, HashStr(s)))
		rb, _ := json.MarshalIndent(map[string]any{
			"property": p.ID, "signature": s, "stage": v.Stage, "idx": v.Idx, "seed": o.Seed, "tier": o.Tier.String(),
			"count": v.Count, "detail": v.Detail, "prelude": v.Prelude, "goarch": runtime.GOARCH,
			"replay_cmd": fmt.Sprintf("./check replay %s", rp),
		}, "", " ")
		_ = os.WriteFile(rp, rb, 0o644)
		fmt.Printf("VIOLATION property=%s replay=%s\n", p.ID, rp)
		fmt.Printf("  signature: %s (x%d)\n  %s\n", s, v.Count, indent(firstN(v.Detail, 1500)))
	}

	// evidence
	distinct := len(total.Cover)
	samples := make([]any, 0, len(total.Samples))
	for _, s := range total.Samples {
		var x any
		_ = json.Unmarshal(s, &x)
		samples = append(samples, x)
	}
	coverByStage := map[string]int{}
	for k := range total.Cover {
		if i := strings.IndexByte(k, '/'); i > 0 {
			coverByStage[k[:i]]++
		}
	}
	cov := map[string]any{
		"evaluations":         total.Evals,
		"distinct_nontrivial": distinct,
		"rule":                p.Rule,
		"samples":             samples,
		"cases":               total.Cases,
		"stage_cases":         total.StageCases,
		"stage_evaluations":   total.StageEvals,
		"distinct_by_stage":   coverByStage,
		"counters":            total.Counters,
		"known_findings_hit":  knownHit,
		"worker_processes":    len(runs),
	}
	fps := 0
	for k := range total.Cover {
		if strings.Contains(k, "/interleaving/") {
			fps++
		}
	}
	if fps > 0 {
		cov["distinct_interleaving_fingerprints"] = fps
	}
	if hasRace {
		libRaces := 0
		for sgn := range total.Violations {
			if strings.HasPrefix(sgn, "race:") {
				libRaces++
			}
		}
		cov["race_detector"] = map[string]any{"worker_processes": raceProcs, "raw_reports": total.Counters["race_reports_raw"], "deduplicated_reports_with_library_frame": libRaces}
	}
	if len(exhaustive) > 0 {
		cov["exhaustive"] = true
		cov["exhaustive_subspaces"] = exhaustive
	}
	if len(inconclusive) > 0 {
		cov["inconclusive"] = inconclusive
	}
	cov["goarch"] = runtime.GOARCH
	if f := os.Getenv("VERIF_EXTRA_PASSES"); f != "" {
		// passes the check script ran beside this one (the 32-bit build): their own counts, as they reported them
		if b, err := os.ReadFile(f); err == nil {
			var x any
			if json.Unmarshal(b, &x) == nil {
				cov["extra_passes"] = x
			}
		}
	}
	ev := map[string]any{
		"property_id": p.ID, "tier": o.Tier.String(), "seed": int64(o.Seed), "level": "exploration",
		"coverage": cov, "assumptions": p.Assumptions, "wall_s": time.Since(t0).Seconds(), "violations": nviol,
		"technique": p.Technique,
	}
	eb, _ := json.MarshalIndent(ev, "", " ")
	_ = os.WriteFile(filepath.Join(outDir, "evidence", p.ID+".json"), append(eb, '\n'), 0o644)

	fmt.Printf("%s %s seed=%d: cases=%d evaluations=%d distinct_nontrivial=%d violations=%d known=%d wall=%.1fs\n",
		p.ID, o.Tier, o.Seed, total.Cases, total.Evals, distinct, nviol, len(knownHit), time.Since(t0).Seconds())
	if nviol > 0 {
		return 1
	}
	if len(inconclusive) > 0 {
		for _, s := range inconclusive {
			fmt.Printf("INCONCLUSIVE property=%s reason=%s\n", p.ID, s)
		}
		return 2
	}
	if len(samples) == 0 {
		fmt.Printf("INCONCLUSIVE property=%s reason=no sample case was recorded\n", p.ID)
		return 2
	}
	if total.Evals == 0 || distinct < 2 {
		fmt.Printf("INCONCLUSIVE property=%s reason=monitors observed nothing (evaluations=%d distinct=%d)\n", p.ID, total.Evals, distinct)
		return 2
	}
	return 0
}

func fatalKind(out string) string {
	for _, ln := range strings.Split(out, "\n") {
		if strings.HasPrefix(ln, "fatal error:") {
			return strings.TrimSpace(strings.TrimPrefix(ln, "fatal error:"))
		}
		if strings.HasPrefix(ln, "runtime: out of memory") {
			return "out of memory"
		}
	}
	return "unknown"
}

func firstN(s string, n int) string {
	if len(s) > n {
		return s[:n] + "…"
	}
	return s
}

func indent(s string) string { return strings.ReplaceAll(s, "\n", "\n  ") }
