// verifmon: driver and worker of the runtime monitors for go-sms-protocol.
package main

import (
	"encoding/json"
	"flag"
	"fmt"
	"os"
	"path/filepath"
	"strconv"
	"strings"

	"verifmon/fw"
	_ "verifmon/props"
)

func envSeed() uint64 {
	if s := os.Getenv("VERIF_SEED"); s != "" {
		if v, err := strconv.ParseInt(s, 10, 64); err == nil {
			return uint64(v)
		}
	}
	return 1
}

func main() {
	if len(os.Args) < 2 {
		fmt.Fprintln(os.Stderr, "usage: verifmon run <Cxx> <quick|thorough> | worker … | replay <file> | list")
		os.Exit(3)
	}
	switch os.Args[1] {
	case "list":
		for _, id := range fw.AllIDs() {
			p := fw.Lookup(id)
			fmt.Println(id, p.Technique)
			for _, st := range p.Stages {
				fmt.Printf("   %-28s quick=%d thorough=%d race=%v %s\n", st.Name, st.N(fw.Quick), st.N(fw.Thorough), st.Race, st.Exhaustive)
			}
		}
	case "run":
		fs := flag.NewFlagSet("run", flag.ExitOnError)
		verif := fs.String("verif", "/verif", "verif dir")
		procs := fs.Int("procs", 0, "worker processes")
		_ = fs.Parse(os.Args[2:])
		if fs.NArg() < 2 {
			fmt.Fprintln(os.Stderr, "usage: verifmon run [--verif dir] <Cxx> <tier>")
			os.Exit(3)
		}
		tierS := fs.Arg(1)
		if t := os.Getenv("VERIF_TIER"); t != "" {
			tierS = t
		}
		tier, err := fw.ParseTier(tierS)
		if err != nil {
			fmt.Fprintln(os.Stderr, err)
			os.Exit(3)
		}
		self, _ := os.Executable()
		dir := filepath.Dir(self)
		os.Exit(fw.RunDriver(fw.DriverOpts{Prop: fs.Arg(0), Tier: tier, Seed: envSeed(), VerifDir: *verif,
			Bin: filepath.Join(dir, "verifmon"), RaceBin: filepath.Join(dir, "verifmon.race"), Procs: *procs}))
	case "worker":
		fs := flag.NewFlagSet("worker", flag.ExitOnError)
		var o fw.WorkerOpts
		var tier, only, skip string
		fs.StringVar(&o.Prop, "prop", "", "")
		fs.StringVar(&tier, "tier", "quick", "")
		fs.Uint64Var(&o.Seed, "seed", 1, "")
		fs.IntVar(&o.Shard, "shard", 0, "")
		fs.IntVar(&o.NShards, "nshards", 1, "")
		fs.StringVar(&o.Out, "out", "", "")
		fs.StringVar(&o.Progress, "progress", "", "")
		fs.StringVar(&o.Stage, "stage", "", "")
		fs.StringVar(&only, "only", "", "")
		fs.StringVar(&skip, "skip", "", "")
		fs.BoolVar(&o.Verbose, "v", false, "")
		fs.BoolVar(&o.RaceStages, "race-stages", false, "")
		_ = fs.Parse(os.Args[2:])
		o.Tier, _ = fw.ParseTier(tier)
		if only != "" {
			o.Only = true
			o.Idx, _ = strconv.ParseUint(only, 10, 64)
		}
		if skip != "" {
			o.Skip = map[string]bool{}
			for _, k := range strings.Split(skip, ",") {
				o.Skip[k] = true
			}
		}
		os.Exit(fw.RunWorker(o))
	case "replay":
		if len(os.Args) < 3 {
			os.Exit(3)
		}
		b, err := os.ReadFile(os.Args[2])
		if err != nil {
			fmt.Fprintln(os.Stderr, err)
			os.Exit(3)
		}
		var r struct {
			Property, Signature, Stage, Tier string
			Idx, Seed                        uint64
			Prelude                          []fw.CaseRef
		}
		if err := json.Unmarshal(b, &r); err != nil {
			fmt.Fprintln(os.Stderr, err)
			os.Exit(3)
		}
		if r.Stage == "race-detector" || strings.HasPrefix(r.Signature, "fatal:") && r.Stage == "" {
			fmt.Println("this witness is a race-detector report or process death; re-run the check itself to reproduce:", r.Property, r.Tier)
			os.Exit(3)
		}
		tier, _ := fw.ParseTier(r.Tier)
		res := fw.ReplayCase(r.Property, tier, r.Seed, r.Stage, r.Idx, r.Signature, r.Prelude...)
		os.Exit(res)
	default:
		fmt.Fprintln(os.Stderr, "unknown command", os.Args[1])
		os.Exit(3)
	}
}
