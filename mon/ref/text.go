// Package ref holds the reference text models the monitors judge the library against:
// the GSM 7-bit alphabet keyed by code point (spec/gsm7_table.json, from 3GPP TS 23.038),
// septet packing defined on the bit stream, UTF-16BE, and the greedy splitter model.
// None of it shares code with the library.
package ref

import (
	"encoding/json"
	"fmt"
	"os"
	"path/filepath"
	"strconv"
	"strings"
	"sync"
	"unicode/utf16"
	"unicode/utf8"

	"verifmon/pdus"
)

const ESC = 0x1b

type GSM7Table struct {
	Basic   [128]rune // -1 = no character (only 0x1b)
	Ext     map[byte]rune
	FromRun map[rune][]byte // rune -> septets (1 or 2)
}

var (
	gsm7     *GSM7Table
	gsm7Once sync.Once
)

func parseU(s string) rune {
	v, err := strconv.ParseUint(strings.TrimPrefix(s, "U+"), 16, 32)
	if err != nil {
		panic("verifmon harness: bad code point " + s)
	}
	return rune(v)
}

func parseX(s string) byte {
	v, err := strconv.ParseUint(strings.TrimPrefix(s, "0x"), 16, 8)
	if err != nil {
		panic("verifmon harness: bad septet " + s)
	}
	return byte(v)
}

// GSM7 loads the reference alphabet (once).
func GSM7() *GSM7Table {
	gsm7Once.Do(func() { gsm7 = loadGSM7() })
	return gsm7
}

func loadGSM7() *GSM7Table {
	b, err := os.ReadFile(filepath.Join(pdus.VerifDir(), "spec", "gsm7_table.json"))
	if err != nil {
		panic("verifmon harness: " + err.Error())
	}
	var raw struct {
		Basic     map[string]string `json:"basic"`
		Extension map[string]string `json:"extension"`
	}
	if err := json.Unmarshal(b, &raw); err != nil {
		panic("verifmon harness: gsm7 table: " + err.Error())
	}
	t := &GSM7Table{Ext: map[byte]rune{}, FromRun: map[rune][]byte{}}
	for i := range t.Basic {
		t.Basic[i] = -1
	}
	for k, v := range raw.Basic {
		t.Basic[parseX(k)] = parseU(v)
		t.FromRun[parseU(v)] = []byte{parseX(k)}
	}
	for k, v := range raw.Extension {
		t.Ext[parseX(k)] = parseU(v)
		t.FromRun[parseU(v)] = []byte{ESC, parseX(k)}
	}
	if len(raw.Basic) != 127 || len(raw.Extension) != 10 || len(t.FromRun) != 137 {
		panic(fmt.Sprintf("verifmon harness: gsm7 table has %d+%d entries, %d distinct characters", len(raw.Basic), len(raw.Extension), len(t.FromRun)))
	}
	return t
}

// Encode maps text to septets; ok=false if a character is not in the alphabet.
func (t *GSM7Table) Encode(s string) (septets []byte, ok bool) {
	septets = []byte{}
	for _, r := range s {
		e, in := t.FromRun[r]
		if !in {
			return nil, false
		}
		septets = append(septets, e...)
	}
	return septets, true
}

// CanEncode reports whether every character of s is in the alphabet.
func (t *GSM7Table) CanEncode(s string) bool {
	_, ok := t.Encode(s)
	return ok
}

// Decode maps septets to text; ok=false for values >= 0x80, a lone or unknown escape.
func (t *GSM7Table) Decode(septets []byte) (string, bool) {
	var sb strings.Builder
	for i := 0; i < len(septets); i++ {
		b := septets[i]
		if b >= 0x80 {
			return "", false
		}
		if b == ESC {
			i++
			if i >= len(septets) {
				return "", false
			}
			r, in := t.Ext[septets[i]]
			if !in {
				return "", false
			}
			sb.WriteRune(r)
			continue
		}
		r := t.Basic[b]
		if r < 0 {
			return "", false
		}
		sb.WriteRune(r)
	}
	return sb.String(), true
}

// Pack: septet i occupies bits 7i..7i+6 of the little-endian bit stream; ceil(7n/8) octets;
// seven spare bits are filled with CR (TS 23.038 §6.1.2.3.1).
func Pack(septets []byte) []byte {
	n := len(septets)
	out := make([]byte, (7*n+7)/8)
	put := func(i int, v byte) {
		for k := 0; k < 7; k++ {
			if v>>uint(k)&1 == 1 {
				bit := 7*i + k
				out[bit/8] |= 1 << uint(bit%8)
			}
		}
	}
	for i, s := range septets {
		put(i, s&0x7f)
	}
	if (7*n)%8 == 1 {
		put(n, 0x0d)
	}
	return out
}

// UnpackN reads n septets from the bit stream.
func UnpackN(b []byte, n int) []byte {
	out := make([]byte, n)
	for i := 0; i < n; i++ {
		var v byte
		for k := 0; k < 7; k++ {
			bit := 7*i + k
			if bit/8 < len(b) && b[bit/8]>>uint(bit%8)&1 == 1 {
				v |= 1 << uint(k)
			}
		}
		out[i] = v
	}
	return out
}

// UnpackAll reads floor(8*len/7) septets.
func UnpackAll(b []byte) []byte { return UnpackN(b, len(b)*8/7) }

// UnpackAcceptable lists the septet sequences an unpacker that is NOT told the septet count may
// return for b: the full floor(8m/7) septets, and — only when that count is a multiple of 8 — the
// sequence without a final CR, or without a final 0x00 that follows a septet < 0x40 (the two
// end-of-message ambiguities named in the property).
func UnpackAcceptable(b []byte) [][]byte {
	full := UnpackAll(b)
	out := [][]byte{full}
	n := len(full)
	if n > 0 && n%8 == 0 {
		last := full[n-1]
		if last == 0x0d {
			out = append(out, full[:n-1])
		}
		if last == 0x00 && full[n-2] < 0x40 {
			out = append(out, full[:n-1])
		}
	}
	return out
}

// EndAmbiguous reports whether a septet sequence falls under the end-of-message carve-out:
// count multiple of 8 and (final CR, or final '@' after a septet < 0x40).
func EndAmbiguous(septets []byte) bool {
	n := len(septets)
	if n == 0 || n%8 != 0 {
		return false
	}
	return septets[n-1] == 0x0d || (septets[n-1] == 0x00 && septets[n-2] < 0x40)
}

// UTF16BE is the reference UCS-2/UTF-16BE encoding of valid UTF-8 text.
func UTF16BE(s string) []byte {
	u := utf16.Encode([]rune(s))
	out := make([]byte, 0, 2*len(u))
	for _, x := range u {
		out = append(out, byte(x>>8), byte(x))
	}
	return out
}

// DecodeUTF16BE decodes strictly: odd length or an unpaired surrogate is an error.
func DecodeUTF16BE(b []byte) (string, bool) {
	if len(b)%2 != 0 {
		return "", false
	}
	u := make([]uint16, len(b)/2)
	for i := range u {
		u[i] = uint16(b[2*i])<<8 | uint16(b[2*i+1])
	}
	var sb strings.Builder
	for i := 0; i < len(u); i++ {
		x := u[i]
		switch {
		case x >= 0xd800 && x < 0xdc00:
			if i+1 >= len(u) || u[i+1] < 0xdc00 || u[i+1] > 0xdfff {
				return "", false
			}
			sb.WriteRune(utf16.DecodeRune(rune(x), rune(u[i+1])))
			i++
		case x >= 0xdc00 && x <= 0xdfff:
			return "", false
		default:
			sb.WriteRune(rune(x))
		}
	}
	return sb.String(), true
}

// IsASCII reports whether every octet is < 0x80.
func IsASCII(s string) bool {
	for i := 0; i < len(s); i++ {
		if s[i] >= 0x80 {
			return false
		}
	}
	return true
}

// GBCarveOut reports whether text contains a BMP private-use code point U+E000..U+E864, for which
// GB18030 (x/text table) is documented not to round-trip.
func GBCarveOut(s string) bool {
	for _, r := range s {
		if r >= 0xE000 && r <= 0xE864 {
			return true
		}
	}
	return false
}

// ValidUTF8 is utf8.ValidString (kept here so monitors state the precondition explicitly).
func ValidUTF8(s string) bool { return utf8.ValidString(s) }
