#!/usr/bin/env bash
# coverage.sh [tier]   — which library statements do the monitors' workloads actually execute?
# Builds the monitor binaries with Go's coverage instrumentation over the library packages (go build -cover
# -coverpkg), runs every claimed check at the given tier (default quick) with GOCOVERDIR set, and writes
#   /verif/coverage/library_coverage.json   totals, per-package figures, functions and blocks never executed
#   /verif/coverage/uncovered.txt           the same blocks with their source lines, for reading
# It decides nothing (exit status 0 unless a build fails); it is the audit that tells us which paths no
# workload drives. Scratch data lives under a mktemp directory that is removed at the end.
set -u
HERE="$(cd "$(dirname "$0")/.." && pwd)"
export GOFLAGS=-mod=mod GOPROXY=off GOSUMDB=off GOTOOLCHAIN=local VERIF_DIR="$HERE"
tier="${1:-quick}"
T="$(mktemp -d /tmp/verifcov.XXXXXX)"; trap 'rm -rf "$T"' EXIT
mkdir -p "$T/bin" "$T/out" "$T/plain" "$T/race"
PKG=github.com/hujm2023/go-sms-protocol
( cd "$HERE/mon" &&
  go build -tags verif -cover -coverpkg=./...,$PKG/... -o "$T/bin/verifmon" ./cmd/verifmon &&
  go build -race -tags verif -cover -coverpkg=./...,$PKG/... -o "$T/bin/verifmon.race" ./cmd/verifmon ) || { echo "coverage build failed"; exit 3; }
for id in $(jq -r '.checks[].property_id' "$HERE/MANIFEST.json"); do
  case "$id" in C09|C12|C13) d="$T/race/$id";; *) d="$T/plain/$id";; esac
  mkdir -p "$d"
  GOCOVERDIR="$d" VERIF_OUT_DIR="$T/out" "$T/bin/verifmon" run --verif "$HERE" "$id" "$tier" 2>&1 | tail -1
done
# the driver (plain binary) also writes its own counters into the race directories: different counter mode, drop them
plainhash=$(ls "$T"/plain/*/covmeta.* | head -1 | sed 's/.*covmeta\.//')
rm -f "$T"/race/*/*"$plainhash"*
( cd "$HERE/mon" &&
  go tool covdata textfmt -i="$(ls -d "$T"/plain/* | paste -sd,)" -pkg=$PKG/... -o "$T/a.txt" &&
  go tool covdata textfmt -i="$(ls -d "$T"/race/* | paste -sd,)" -pkg=$PKG/... -o "$T/b.txt" ) || exit 3
mkdir -p "$HERE/coverage"
python3 - "$T/a.txt" "$T/b.txt" "$HERE/coverage" "$tier" "${VERIF_REPO:-/repo}" <<'PY'
import re, sys, json, collections, subprocess
a, b, out, tier, repo = sys.argv[1:6]
blocks = collections.defaultdict(int)
for fn in (a, b):
    for l in open(fn):
        if l.startswith('mode'):
            continue
        f, sl, sc, el, ec, n, c = re.match(r'(.*):(\d+)\.(\d+),(\d+)\.(\d+) (\d+) (\d+)', l).groups()
        blocks[(f.replace('github.com/hujm2023/go-sms-protocol/', ''), int(sl), int(el), int(n))] += int(c)
# outside every property: the logging package, the String()/stringer helpers, the hook package itself
outside = ('logger/', 'packet/stringer.go', 'verifhook/', 'verif_export.go')
pk = collections.defaultdict(lambda: [0, 0])
unc = collections.defaultdict(list)
for (f, sl, el, n), c in sorted(blocks.items()):
    if any(f.startswith(o) or f.endswith(o) for o in outside):
        continue
    d = f.rsplit('/', 1)[0] if '/' in f else '.'
    pk[d][0] += n
    pk[d][1] += n if c else 0
    if c == 0:
        unc[f].append([sl, el])
tot = sum(v[0] for v in pk.values()); cov = sum(v[1] for v in pk.values())
head = subprocess.run(['git', '-C', repo, 'rev-parse', 'HEAD'], capture_output=True, text=True).stdout.strip()
json.dump({'tier': tier, 'repo_head': head, 'excluded': list(outside), 'statements': tot, 'executed': cov,
           'percent': round(100.0 * cov / tot, 2),
           'per_package': {k: {'statements': v[0], 'executed': v[1]} for k, v in sorted(pk.items())},
           'never_executed_blocks': unc}, open(out + '/library_coverage.json', 'w'), indent=1)
with open(out + '/uncovered.txt', 'w') as w:
    w.write(f'library statements executed by the {tier} workloads: {cov}/{tot} ({100.0*cov/tot:.1f}%) at {head}\n')
    for f, l in unc.items():
        try:
            src = open(f'{repo}/{f}').read().split('\n')
        except OSError:
            src = []
        for sl, el in l:
            w.write(f'--- {f}:{sl}-{el}\n')
            for i in range(sl, min(el, sl + 6) + 1):
                if i - 1 < len(src):
                    w.write(f'    {src[i-1]}\n')
print(f'library statements executed by the {tier} workloads: {cov}/{tot} ({100.0*cov/tot:.1f}%)')
PY
