#!/usr/bin/env python3
"""Regenerates /verif/MANIFEST.json from the table below (one entry per claimed property).
The manifest is committed; this script only keeps it consistent and schema-valid."""
import json, subprocess, sys, os
HERE = os.path.dirname(os.path.dirname(os.path.abspath(__file__)))

CHECKS = {
 # id: (technique, level text, level note, design ref)
 "C01": ("runtime monitor: field-wise encode->decode round-trip oracle over generated PDU values (boundary sweep + random), Poison/step-budget hooks",
         "Exploration: every PDU type is driven through IEncode -> IDecode with every field swept over its boundary classes (each-field sweep) and with random assignments; a reflection oracle compares every field, the announced length and the oversize-refusal clause. Held-on-observed, not a proof; the quantifier (all field assignments) is sampled except for the enumerated boundary classes.",
         "Trusted: Go reflection, the (field name -> spec field) map in spec/wire_tables.json. Known finding: LoginResp trailing-NUL trim (pinned by the suite). Every case also registers an Echo: the same value is encoded and the same image decoded again after the next case, and both answers must be unchanged.", "DESIGN.md §5 C01, §3 (Echo)"),
 "C02": ("runtime monitor: differential oracle, library codec vs independent table-driven reference codec transcribed from doc/*.pdf, octet-for-octet",
         "Exploration with an independent reference: every generated assignment is encoded by the library and by a reference codec written from the specification tables and compared octet for octet; reference images (optional parameters shuffled) are decoded by the library and compared value for value; the destination-count x body-length grid 0..255^2 of the four submit types is enumerated completely.",
         "Trusted: the transcription in spec/wire_tables.json (each table cites the document section), the 250-line reference codec. The reference knows the one conditional layout of the documents (SMPP 3.4: no body behind a non-zero command_status for bind_transmitter_resp, bind_receiver_resp, submit_sm_resp). Known findings: SMGP Active_Test_Resp encoder emits a body octet; LoginResp trailing-NUL trim; SMPP error responses encoded with a body (three entries).", "DESIGN.md §5 C02, §6 #25"),
 "C03": ("runtime resource monitors: panic capture, logical step budget (Tick hooks), runtime/metrics allocation delta around every decoder/parser; strict reference parser for the truncated-mandatory clause; thorough tier adds Go native coverage-guided fuzzing whose corpus is re-judged by the same monitors",
         "Exploration under resource monitors: 57 IDecodes (fresh and recycled objects), 5 dispatchers and about 50 auxiliary parsers incl. the String()/transform.Reader/transform.Writer entry points of the GSM-7 transformers are run on structurally mutated reference images (every truncation point, every length/count field x boundary values, every offset x 5 octet values, trailing garbage 1..16, optional-parameter tail surgery) and on unstructured strings up to 64 KiB; each call is judged for panic, step-budget overrun (hang) and allocation (cheap counter against 2 MiB + 64*len; whenever it exceeds 24 KiB + 64*len an exact runtime.ReadMemStats measurement, minimum of three, against that tight bound); a GOARCH=386 build of the same monitors runs the quick workload as a second pass (32-bit int); acceptance of an input whose mandatory part is incomplete is judged by an independent strict parser.",
         "Trusted: runtime allocation accounting, Tick call sites (loops without a hook are covered only by the wall-clock watchdog => inconclusive). DecodeBlocked is exempt from the allocation clause (frame sizes clamped to 1 MiB).", "DESIGN.md §5 C03, §3.3"),
 "C04": ("runtime monitor: sequential cursor model (shadow state) checked after every Codec.Decode / DecodeBlocked step, over generated streams x arrival schedules x injected read faults",
         "Exploration with a shadow model: frame lists (frames 4..64 KiB, bodies salted with plausible prefixes) are delivered under every single cut (and cut pair) for short streams, 1-octet drip and random multi-cut; the blocking extractor is run with a fault (EOF, ErrUnexpectedEOF, custom error) at every stream position; prefixes 0..3 are placed at every frame position. After each call the returned frame, the error and Size() are compared with the cursor model.",
         "Also: one codec value shared by interleaved streams; a failure reported once (timeout-typed) mid-frame with the stream continuing; frames held by the caller re-read later. Trusted: the harness ConnReader (documented bufio-like contract). Both CMPPCodec and SMPPCodec.", "DESIGN.md §5 C04"),
 "C05": ("runtime monitor: round-trip-or-refuse oracle with exact reference encodings (ASCII, UTF-16BE, TS 23.038 GSM-7) over every Unicode scalar value in short contexts and biased random strings; unsupported coding numbers enumerated",
         "Exploration, exhaustive on a sub-space: all 1,112,064 Unicode scalar values alone and in two (thorough: four) contexts through all six codecs, packed GSM-7 characters at every position of 8/9/16-septet frames, random strings biased to each repertoire edge, the eight protocol-level encoder/decoder pairings, all 256 CMPP and -2..300 SMPP coding numbers for the refusal clause.",
         "Trusted: unicode/utf16, spec/gsm7_table.json; Latin-1 and GB18030 repertoires are the upstream x/text tables (only round-trip-or-refuse is judged).", "DESIGN.md §5 C05"),
 "C06": ("runtime monitor: reference-decoder oracle over split results (headers stripped, payloads concatenated, independent decoder of the reported coding; packed GSM-7 unpacked with handset-style septet counts)",
         "Exploration: texts constructed to hit the 140/160 thresholds and multiples of 134/153 +-3 with multi-unit characters at every offset -3..+3 of part boundaries, up to beyond 255 parts, x all valid and several invalid CMPP/SMPP coding numbers x reference byte, through EncodeCMPPContentAndSplit, EncodeSMPPContentAndSplit and Build; content equality, reported coding and the single-SMS clause are judged per result.",
         "Trusted: reference encoders for ASCII/UCS-2/GSM-7; library codec verdict for Latin-1/GB18030 representability.", "DESIGN.md §5 C06"),
 "C07": ("runtime monitor: size/header/part-count oracle against a greedy whole-character splitter model; exhaustive enumeration of ParseLongSmsContent over all 2^24 6-octet headers and all 2^16 16-bit references",
         "Exploration + exhaustive parser enumeration: every split result of the C06 workload is judged for part sizes, non-empty parts, header octets, part count <= model, refusal beyond 255 parts, and parser/producer agreement; the parser is enumerated over every (ref,total,seq) triple, every 16-bit reference and single-octet near misses.",
         "Trusted: the greedy model. Between blind count <= 255 < whole-character count either refusal or success is accepted (§7).", "DESIGN.md §5 C07, §7"),
 "C08": ("runtime monitor: exhaustive differential oracle against a code-point-keyed TS 23.038 table and a bit-stream definition of septet packing; cross-entry-point agreement monitor",
         "Exhaustive on the enumerated sub-spaces (all 1,114,112 code points, all 65,536 septet pairs, all septet sequences of length 0..3, all sequences <= 8 (quick 6) over the 7-letter branch alphabet, block-boundary triples for lengths 1..40, single-bit wiring for lengths 0..64) plus random sequences to 2000 septets and arbitrary octets through Unpack; every entry point (function pairs, transformers, codecs, validators) is compared with the reference and with the others; a stage keeps one encoder/decoder object set per worker and sends sequences of decodable and refused messages through it, into dirty and short destinations, through String(), transform.Reader and transform.Writer.",
         "Trusted: spec/gsm7_table.json written from TS 23.038 (not in doc/), the 15-line bit-stream packer.", "DESIGN.md §5 C08"),
 "C14": ("runtime monitor: per-part reference decoding of split results (each part decoded on its own), concatenation compared with the original",
         "Exploration: multi-part texts with escape pairs / surrogate pairs / 2- and 4-octet GB18030 characters started at every offset -3..+3 of every part boundary, every multi-unit coding and entry point; each part is decoded alone by the reference decoder. (The eight findings this check first recorded were repaired by fix 693af2d.)",
         "Trusted: reference decoders; GB18030 per-part decoding = library decoder + re-encode check.", "DESIGN.md §5 C14, §6 #14"),
 "C09": ("runtime monitor: reference-winner oracle + determinism monitor (shuffled order, duplicates, GOMAXPROCS changes, Yield-hook delays; byte comparison), concurrent stage under the Go race detector; comparator laws enumerated",
         "Exploration: requests (protocol, content around part-count thresholds, non-empty candidate subsets plus invalid numbers, origin coding) judged against min over (parts, documented priority) and repeated 8x (thorough 32x) under perturbation for byte-identical results; the comparator is enumerated over all (coding, parts 1..4) pairs and triples for strict-total-order laws; a -race stage runs Build's goroutines with injected yields.",
         "Trusted: priority ranks transcribed from code comments; a candidate's part count is taken from the library's single-coding entry point (declared exception, DESIGN 5 C09).", "DESIGN.md §5 C09"),
 "C10": ("runtime monitor: pairing-table oracle from the specifications (response type, sequence words, command id) + dispatcher consistency oracle over encoded images and enumerated command ids",
         "Exploration, exhaustive over the defined command ids: every request/response type x boundary/random sequence numbers (SGIP all three words) x three SMPP bind flavours; each dispatcher on the reference image of every type, on every command id of the const blocks and response-bit twins, and on random ids; constructors and New*Bytes helpers; one dispatch in four forces a boundary class (64 KiB body, 65531-octet parameter, 255 destinations); a second packet of the same command is dispatched while the first result is held.",
         "Trusted: response table in spec/wire_tables.json; SGIP 1.2 §3.4 (all three sequence words repeated).", "DESIGN.md §5 C10, §7"),
 "C11": ("runtime monitor: relay oracle IDecode(b) -> IEncode -> IDecode compared field-wise; canonical images compared bit-for-bit (optional parameters as a set)",
         "Exploration: canonical images of generated values and reference images mutated to stay parseable (junk after NULs, odd length words, trailing garbage, duplicate tags, 65531..65535-octet optional values, extreme numerics); every accepted input must re-encode and re-decode to the same PDU; a run with fewer than half of the mutated inputs accepted is inconclusive. One relay in six is preceded by an encode that must be refused; one canonical relay in three decodes into a long-lived PDU value per type (a receive loop).",
         "Trusted: reflection extraction; CMPP 2.0 submit 0/0 -> 1/1 normalisation applied once.", "DESIGN.md §5 C11"),
 "C12": ("runtime monitor: result ledger (live object + deep snapshot re-checked after every later operation) with input scribbling, Poison hook on pooled buffers, pool-ownership monitor; 4-goroutine variant under the Go race detector",
         "Exploration over histories: 1..1000 mixed operations (encode, decode from a scribbled buffer, dispatcher+String, zero-copy frame extraction then refill, split, batch with a reused builder, option containers, text codecs from strings and over caller-owned buffers, decode twice into one value, refused encodes); after each operation the last 64 results are compared with their snapshots; pooled buffers are poisoned at release so a result backed by pooled memory fails at once.",
         "Trusted: the hook call sites (Writer.Release, Utf8ToUcs2Pooled); Reader.Bytes()/Codec.Decode views are documented views and not monitored themselves.", "DESIGN.md §5 C12, §3.2"),
 "C13": ("Go race detector over a multi-goroutine mixed workload (handler not installed) + sequential-equivalence oracle + pool-ownership monitor with Yield-hook schedule perturbation",
         "Sampled schedules: 2..64 goroutines each running its own op list on its own values, worker processes with GOMAXPROCS 1..16; 20 op kinds incl. images that end early (error text compared) and six texts that several goroutines split at the same time; (1) every result equals the same list run alone, and the last 32 results each goroutine holds are re-read every 16 calls, (2) zero deduplicated race reports with a library or pool frame in configuration A, (3) ownership monitor silent and >= 2 distinct interleaving fingerprints in configuration B. 'No race observed in N executions', not race freedom.",
         "Trusted: the Go race detector; bytebufferpool/sync.Pool implementations.", "DESIGN.md §5 C13, §3.4"),
 "C15": ("runtime monitor: independent MD5 formula from the CMPP/SMGP documents vs library generators, end-to-end verification after encode -> decode, targeted stream of digests containing 0x00",
         "Exploration: accounts, secrets, timestamps, status codes (boundaries and random) for CMPP 2.0, CMPP 3.0 and SMGP 3.0; a targeted stage keeps only credential sets whose digest has 0x00 first / inside / last (tens of thousands per quick run); the peer's recomputation from decoded fields must equal the decoded authenticator. GenConnectTimestamp under injected clocks that advance between readings; every decoded authenticator verified again after the receive buffer was overwritten. One open known finding (LoginResp trailing 0x00).",
         "Trusted: crypto/md5; formula text in spec/extracted.", "DESIGN.md §5 C15"),
 "C16": ("runtime monitor: reference triplet emitter / strict parser as oracle for both containers and both parsers of each; no-fabrication check on arbitrary byte strings; boundary lengths; step budget",
         "Exploration: parameter sets (0..32, tags 0..65535, lengths incl. 65531/65535) round-tripped through Bytes/Serialize and all four parsers; well-formed sequences with duplicates for parser agreement; damaged and random byte strings for the no-fabrication clause; value lengths 65529..65540 and 69990..70000 enumerated; Add on nil/empty containers and TP_udhi on short values; parser inputs are windows of larger buffers; containers a parser returned get a parameter of the harness's own added.",
         "Trusted: the 20-line strict walk.", "DESIGN.md §5 C16"),
 "C17": ("runtime monitor: bit-layout reference (shifts from the CMPP text) + round-trip oracles, every field enumerated over its full range",
         "Exhaustive per field (gateway: all 2^22 values) x three backgrounds, plus random tuples, boundary bit patterns and random 64-bit ids: CombineMsgID against the reference layout, Split(Combine)=id, Combine(Split)=id, decimal string form 22 digits and parse-back; call sequences in which strings are kept while other ids are converted and unparsable strings are parsed in between.",
         "Trusted: the shift table transcribed from CMPP §8.3.", "DESIGN.md §5 C17"),
 "C18": ("runtime monitor: constructive oracle — receipts built from a (key,value) list so the expected extraction is known by construction; CMPP status body via the reference layout",
         "Exploration: all 2^8 key subsets in PRNG permutations, both SMGP spellings (primary, alternative, mixed), values without key tokens but with bare key names, SMGP ids over all octets; every field compared with its expected value (SMGP: cut to the specified width, id in hex); the same receipt is extracted again after the next case (Echo).",
         "Trusted: field widths from SMGP 3.0.3 §6.2.63.", "DESIGN.md §5 C18"),
 "C19": ("runtime monitor: arithmetic oracle on the produced 16-character SMPP time, `now` passed explicitly (no wall clock)",
         "Exploration: unit boundaries +-1 s up to 100 years in both forms, negative/unparsable strings, random durations in every ParseDuration syntax, `now` at leap day, century end, non-UTC zone and random instants 2000..2099; relative: DD*86400+hh*3600+mm*60+ss == floor(d) or an error; absolute: UTC(now+d); call sequences over a small pool of durations in any order of the two forms; the same calls with the process's time.Local set to seven zones.",
         "Trusted: package time.", "DESIGN.md §5 C19"),
 "C20": ("runtime monitor: shadow model of packet.Writer/Reader compared after every primitive operation, failure injected at every position",
         "Exploration over histories: write sequences 0..200 over all eight primitives with an oversize fixed string injected at PRNG-chosen positions; after every op Written/Len/Bytes/BytesWithLength/Error are compared with the model; mirrored read sequences over full and truncated images check inverse-ness, sticky first error and zero values after failure; C-strings and byte runs up to 5000 octets; every value a read returned is compared again after later reads.",
         "Trusted: the 60-line model.", "DESIGN.md §5 C20"),
}
NOT_APPLICABLE = {}

def main():
    hooks = subprocess.run(["git", "-C", "/repo", "log", "--format=%h %s"], capture_output=True, text=True).stdout.splitlines()
    hook_commits = [l.split()[0] for l in hooks if l.split(" ", 1)[1].startswith("verif hooks")]
    props = [json.loads(l)["id"] for l in open(os.path.join(HERE, "properties.jsonl"))]
    checks = []
    for pid in props:
        if pid not in CHECKS:
            continue
        tech, text, note, ref = CHECKS[pid]
        checks.append({
            "property_id": pid,
            "quick_cmd": f"./check {pid} quick",
            "thorough_cmd": f"./check {pid} thorough",
            "evidence_file": f"evidence/{pid}.json",
            "replay_cmd_template": "./check replay {path}",
            "engine": "verifmon",
            "level_claimed": {"category": "exploration", "text": text, "design_ref": ref},
            "level_note": note,
            "technique": tech,
        })
    na = [{"property_id": p, "reason": NOT_APPLICABLE.get(p, "monitor not built yet in this session (work in progress; see DESIGN.md §5)")}
          for p in props if p not in CHECKS]
    m = {
        "version": 1,
        "setup_cmd": "./check setup",
        "hooks": {
            "guard": "verif",
            "enable": "go build -tags verif (./check builds mon/cmd/verifmon with -tags verif, and a second -race binary, against /repo's working tree through a replace directive)",
            "baseline_off_cmd": "./check baseline-off",
            "source_commits": hook_commits[::-1],
            "add_only": True,
        },
        "engines": [{"name": "verifmon", "path": "mon/", "serves_properties": [c["property_id"] for c in checks],
                     "kind_free_text": "Go driver/worker binary: deterministic PRNG case lists sharded over worker processes, reference-model oracles, hook handler (step budget, poison, pool ownership, yields), race-log parser"}],
        "checks": checks,
        "not_applicable": na,
        "notes": "Runtime monitoring only. VERIF_SEED seeds every PRNG (default 1); VERIF_TIER overrides the tier. Exit 0 held / 1 VIOLATION / 2 INCONCLUSIVE. known_findings.json lists recorded defects (KNOWN-FINDING lines) and fix: commits. C03 (both tiers) and, in the thorough tier, every property without a race stage also run a GOARCH=386 build of the same monitors (VERIF_NO_386=1 switches that off). tools/coverage.sh is an audit of which library statements the workloads execute; it decides nothing.",
    }
    json.dump(m, open(os.path.join(HERE, "MANIFEST.json"), "w"), indent=1, ensure_ascii=False)
    try:
        import jsonschema
        jsonschema.validate(m, json.load(open("/root/.vp/MANIFEST.schema.json")))
        print("MANIFEST.json valid:", len(checks), "checks,", len(na), "not_applicable")
    except ImportError:
        print("jsonschema not importable here; wrote MANIFEST.json without validating")

main()
