#!/usr/bin/env python3
"""Minimal PDF text extractor used to transcribe the protocol field tables from
/repo/doc/*.pdf into /verif/mon/spec (no PDF tooling is installed in the sandbox).

Handles: classic xref PDFs, object streams, FlateDecode, ToUnicode CMaps
(bfchar/bfrange), simple and 2-byte CID fonts, and the standard security handler
V1/V2 (RC4, R2/R3) with the empty user password (the SMGP file is encrypted).

usage: pdftext.py <in.pdf> <out.txt>
Output: one "##### PAGE n" block per page, text runs separated by newlines in
content-stream order (tables come out cell by cell, which is enough to read the
field name / size / type columns).
"""
import hashlib
import re
import sys
import zlib

PAD = bytes([0x28, 0xBF, 0x4E, 0x5E, 0x4E, 0x75, 0x8A, 0x41, 0x64, 0x00, 0x4E, 0x56, 0xFF, 0xFA, 0x01, 0x08,
             0x2E, 0x2E, 0x00, 0xB6, 0xD0, 0x68, 0x3E, 0x80, 0x2F, 0x0C, 0xA9, 0xFE, 0x64, 0x53, 0x69, 0x7A])


def rc4(key, data):
    s = list(range(256))
    j = 0
    for i in range(256):
        j = (j + s[i] + key[i % len(key)]) & 255
        s[i], s[j] = s[j], s[i]
    out = bytearray(len(data))
    i = j = 0
    for n, c in enumerate(data):
        i = (i + 1) & 255
        j = (j + s[i]) & 255
        s[i], s[j] = s[j], s[i]
        out[n] = c ^ s[(s[i] + s[j]) & 255]
    return bytes(out)


def pdf_string(raw):
    """decode a PDF literal string body (without the outer parentheses)"""
    out = bytearray()
    i = 0
    while i < len(raw):
        c = raw[i]
        if c == 0x5C and i + 1 < len(raw):
            n = raw[i + 1]
            if n in b'nrtbf':
                out.append({0x6E: 10, 0x72: 13, 0x74: 9, 0x62: 8, 0x66: 12}[n])
                i += 2
            elif 0x30 <= n <= 0x37:
                m = re.match(rb'[0-7]{1,3}', raw[i + 1:i + 4])
                out.append(int(m.group(0), 8) & 255)
                i += 1 + len(m.group(0))
            elif n in (10, 13):
                i += 2
                if n == 13 and i < len(raw) and raw[i] == 10:
                    i += 1
            else:
                out.append(n)
                i += 2
        else:
            out.append(c)
            i += 1
    return bytes(out)


def find_literal(d, key):
    """return decoded literal string value of /key(...) in dict bytes d (balanced parens)"""
    i = d.find(key)
    if i < 0:
        return None
    i = d.find(b'(', i)
    depth = 0
    j = i
    while j < len(d):
        c = d[j]
        if c == 0x5C:
            j += 2
            continue
        if c == 0x28:
            depth += 1
        elif c == 0x29:
            depth -= 1
            if depth == 0:
                break
        j += 1
    return pdf_string(d[i + 1:j])


class PDF:
    def __init__(self, data):
        self.d = data
        self.objs = {}
        self.key = None
        for m in re.finditer(rb'(\d+)\s+(\d+)\s+obj\b', data):
            num = int(m.group(1))
            s = m.end()
            e = data.find(b'endobj', s)
            self.objs[num] = data[s:e]
        self._setup_crypt()
        self._expand_objstm()

    def _setup_crypt(self):
        m = re.search(rb'/Encrypt\s+(\d+)\s+0\s+R', self.d)
        if not m:
            return
        enc = self.objs[int(m.group(1))]
        o = find_literal(enc, b'/O')
        p = int(re.search(rb'/P\s+(-?\d+)', enc).group(1)) & 0xFFFFFFFF
        r = int(re.search(rb'/R\s+(\d+)', enc).group(1))
        lm = re.search(rb'/Length\s+(\d+)', enc)
        n = (int(lm.group(1)) // 8) if lm else 5
        idm = re.search(rb'/ID\s*\[\s*<([0-9A-Fa-f]+)>', self.d)
        id0 = bytes.fromhex(idm.group(1).decode())
        h = hashlib.md5(PAD + o[:32] + p.to_bytes(4, 'little') + id0).digest()
        if r >= 3:
            for _ in range(50):
                h = hashlib.md5(h[:n]).digest()
        self.key = h[:n]
        self.encobj = int(m.group(1))

    def _objkey(self, num, gen=0):
        k = hashlib.md5(self.key + num.to_bytes(3, 'little') + gen.to_bytes(2, 'little')).digest()
        return k[:min(len(self.key) + 5, 16)]

    def stream(self, num):
        body = self.objs.get(num)
        if body is None:
            return None
        m = re.search(rb'stream\r?\n', body)
        if not m:
            return None
        head = body[:m.start()]
        raw = body[m.end():body.rfind(b'endstream')]
        lm = re.search(rb'/Length\s+(\d+)\b(?!\s+\d+\s+R)', head)
        if lm and int(lm.group(1)) <= len(raw):
            raw = raw[:int(lm.group(1))]
        else:
            raw = raw.rstrip(b'\r\n')
        if self.key is not None:
            raw = rc4(self._objkey(num), raw)
        if b'FlateDecode' in head:
            try:
                return zlib.decompress(raw)
            except Exception:
                try:
                    return zlib.decompressobj().decompress(raw)
                except Exception:
                    return None
        return raw

    def _expand_objstm(self):
        for n, b in list(self.objs.items()):
            if b'/ObjStm' in b[:400]:
                u = self.stream(n)
                if not u:
                    continue
                cnt = int(re.search(rb'/N\s+(\d+)', b).group(1))
                first = int(re.search(rb'/First\s+(\d+)', b).group(1))
                hdr = u[:first].split()
                for i in range(cnt):
                    on = int(hdr[2 * i])
                    off = int(hdr[2 * i + 1])
                    nxt = int(hdr[2 * i + 3]) if i + 1 < cnt else len(u) - first
                    self.objs.setdefault(on, u[first + off:first + nxt])


def parse_cmap(u):
    mp = {}
    width = 1
    cs = re.search(rb'begincodespacerange\s*<([0-9A-Fa-f]+)>', u)
    if cs:
        width = len(cs.group(1)) // 2
    for blk in re.findall(rb'beginbfchar(.*?)endbfchar', u, re.S):
        for a, b in re.findall(rb'<([0-9A-Fa-f]+)>\s*<([0-9A-Fa-f]+)>', blk):
            mp[int(a, 16)] = bytes.fromhex(b.decode()).decode('utf-16-be', 'replace')
    for blk in re.findall(rb'beginbfrange(.*?)endbfrange', u, re.S):
        for a, b, arr in re.findall(rb'<([0-9A-Fa-f]+)>\s*<([0-9A-Fa-f]+)>\s*\[(.*?)\]', blk, re.S):
            a = int(a, 16)
            for i, h in enumerate(re.findall(rb'<([0-9A-Fa-f]+)>', arr)):
                mp[a + i] = bytes.fromhex(h.decode()).decode('utf-16-be', 'replace')
        blk2 = re.sub(rb'<[0-9A-Fa-f]+>\s*<[0-9A-Fa-f]+>\s*\[.*?\]', b'', blk, flags=re.S)
        for a, b, c in re.findall(rb'<([0-9A-Fa-f]+)>\s*<([0-9A-Fa-f]+)>\s*<([0-9A-Fa-f]+)>', blk2):
            a = int(a, 16)
            b = int(b, 16)
            base = bytes.fromhex(c.decode()).decode('utf-16-be', 'replace')
            for i in range(a, b + 1):
                if base:
                    mp[i] = base[:-1] + chr(ord(base[-1]) + i - a)
    return width, mp


def extract(path):
    pdf = PDF(open(path, 'rb').read())
    O = pdf.objs
    fonts = {}  # obj num -> (width, map) or None
    for n, b in O.items():
        if re.search(rb'/Type\s*/Font\b', b):
            m = re.search(rb'/ToUnicode\s+(\d+)\s+0\s+R', b)
            cm = None
            if m:
                u = pdf.stream(int(m.group(1)))
                if u:
                    cm = parse_cmap(u)
            if cm is None and re.search(rb'/Subtype\s*/Type0', b):
                cm = (2, {})
            fonts[n] = cm
    pages = sorted((n, b) for n, b in O.items() if re.search(rb'/Type\s*/Page\b', b))
    res = []
    num = rb'(-?\d*\.?\d+)'
    tok = re.compile(rb'/([A-Za-z0-9_+\-\.]+)\s+(-?[\d.]+)\s+Tf|\[((?:[^\]\\]|\\.)*)\]\s*TJ|\(((?:[^)\\]|\\.)*)\)\s*(?:Tj|\'|")|<([0-9A-Fa-f\s]+)>\s*Tj|(T\*|\bET\b)|'
                     + num + rb'\s+' + num + rb'\s+(Td|TD)\b|' + num + rb'\s+' + num + rb'\s+' + num + rb'\s+' + num + rb'\s+' + num + rb'\s+' + num + rb'\s+Tm\b', re.S)
    for pn, (n, b) in enumerate(pages):
        # collect name -> font object over the page dict and every dict it references one level deep
        scope = b
        for ref in re.findall(rb'/(?:Resources|Font)\s+(\d+)\s+0\s+R', b):
            scope += O.get(int(ref), b'')
        for ref in re.findall(rb'/Font\s+(\d+)\s+0\s+R', scope):
            scope += O.get(int(ref), b'')
        fmap = {}
        for name, ref in re.findall(rb'/([A-Za-z0-9_+\-\.]+)\s+(\d+)\s+0\s+R', scope):
            if int(ref) in fonts:
                fmap[name] = int(ref)
        cm = re.search(rb'/Contents\s*(\[.*?\]|\d+\s+0\s+R)', b, re.S)
        if not cm:
            continue
        refs = [int(x) for x in re.findall(rb'(\d+)\s+0\s+R', cm.group(1))]
        content = b'\n'.join((pdf.stream(r) or b'') for r in refs)
        cur = [None]
        lasty = [None, 0.0]
        text = []

        def dec(bs):
            f = fonts.get(fmap.get(cur[0], -1))
            if f is None:
                return bs.decode('latin1')
            width, mp = f
            if width == 2:
                return ''.join(mp.get(int.from_bytes(bs[i:i + 2], 'big'), '�') for i in range(0, len(bs) - 1, 2))
            return ''.join(mp.get(c, chr(c)) for c in bs)

        fs = [12.0, 1.0]
        for m in tok.finditer(content):
            if m.group(1):
                cur[0] = m.group(1)
                try:
                    fs[0] = abs(float(m.group(2))) or 12.0
                except ValueError:
                    pass
            elif m.group(3) is not None:
                for p in re.finditer(rb'\(((?:[^)\\]|\\.)*)\)|<([0-9A-Fa-f\s]+)>', m.group(3), re.S):
                    if p.group(1) is not None:
                        text.append(dec(pdf_string(p.group(1))))
                    else:
                        text.append(dec(bytes.fromhex(re.sub(rb'\s', b'', p.group(2)).decode())))
            elif m.group(4) is not None:
                text.append(dec(pdf_string(m.group(4))))
            elif m.group(5) is not None:
                text.append(dec(bytes.fromhex(re.sub(rb'\s', b'', m.group(5)).decode())))
            elif m.group(6) is not None:
                text.append('\n')
            elif m.group(9) is not None:
                if abs(float(m.group(8))) > 0.01:
                    text.append('\n')
                elif abs(float(m.group(7))) > 1.05 * fs[0]:
                    text.append(' ')
            else:
                a, x, y = abs(float(m.group(10))) or 1.0, float(m.group(14)), float(m.group(15))
                fs[1] = a
                if lasty[0] is None or abs(y - lasty[0]) > 0.01:
                    text.append('\n')
                elif abs(x - lasty[1]) > 2.2 * fs[0] * a:
                    text.append(' ')
                lasty[0], lasty[1] = y, x
        res.append('##### PAGE %d\n' % (pn + 1) + re.sub(r'\n+', '\n', ''.join(text)))
    return res


if __name__ == '__main__':
    pages = extract(sys.argv[1])
    open(sys.argv[2], 'w').write('\n'.join(pages))
    print(sys.argv[1], len(pages), 'pages', sum(len(p) for p in pages), 'chars')
