#!/usr/bin/env python3
"""Run the repository's own test suite with the hook guard OFF (no build tag) and compare the set of
passing tests with the stable baseline in /root/.vp/BASELINE.json. Exit 0 iff every baseline test passes."""
import json, os, subprocess, sys
repo = sys.argv[1] if len(sys.argv) > 1 else "/repo"
base = json.load(open("/root/.vp/BASELINE.json"))
want = set(base["stable_pass"])
env = dict(os.environ, GOFLAGS="-mod=mod", GOPROXY="off", GOSUMDB="off", GOTOOLCHAIN="local")
p = subprocess.run(["go", "test", "-mod=mod", "-json", "-vet=off", "-count=1", "-timeout", "25m", "./..."],
                   cwd=repo, env=env, stdout=subprocess.PIPE, stderr=subprocess.STDOUT, text=True)
passed, failed = set(), set()
for ln in p.stdout.splitlines():
    try:
        e = json.loads(ln)
    except Exception:
        continue
    if e.get("Test") and e.get("Action") in ("pass", "fail"):
        (passed if e["Action"] == "pass" else failed).add(e["Package"] + "::" + e["Test"])
missing = sorted(want - passed)
print(f"baseline-off: {len(want & passed)}/{len(want)} baseline tests pass with the guard off; "
      f"{len(failed)} failing test(s) overall; {len(passed - want)} passing test(s) outside the baseline")
for m in missing[:50]:
    print("  MISSING/FAILED:", m)
for f in sorted(failed)[:50]:
    print("  FAIL:", f)
sys.exit(0 if not missing else 1)
